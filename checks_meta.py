"""Per-property metadata for the check driver: level, rule text, budgets, coverage floors, assumptions."""

COMMON_ASSUMPTIONS = [
    "The harness's reference model (values, logical tables) is the specification side; it shares no code with the engine.",
    "Only executions actually produced are decided: classes/lengths/representations listed in coverage.rule and coverage.observed.",
    "i64::MAX and the NaN bit pattern 0x7ffaaaaaaaaaaaaa are outside the value domain (engine NULL sentinels).",
]

META = {
    "C01": {
        "level": "exploration",
        "rule": "Deterministic grid: every int/float/string value class x every null pattern x lengths at the bitmap byte "
                "boundaries x transport (wire capnp, native struct, row API, client serialize/deserialize) x residency "
                "(unflushed buffer, flushed partition, evicted+reloaded from disk, restarted) x mem_lz4, plus type-degradation "
                "pairs (int/float/str/null first half then another type) and a seeded random fill. One evaluation = one "
                "returned column compared cell by cell (row view and column view) with the supplied cells. A case counts as "
                "distinct non-trivial per (kind, class, null pattern, length bucket, transport, config, stage, codec signature) "
                "when it has at least one non-null cell and, unless the pattern is 'none', at least one NULL.",
        "budget": {"quick": 90, "thorough": 1200},
        "relfast": True,
        "floors": {
            "quick": {
                "evaluations": 20000, "distinct": 3000,
                "sets": {"codec_signatures": ["ToI64(U8)", "ToI64(U16)", "ToI64(U32)", "Add(U8)", "Add(U16)", "Add(U32)", "Delta(",
                                              "Dict(U8)", "Dict(U16)", "StrUnpack", "StrHexUnpack", "Nullable", "LZ4", "Pco"]},
            },
        },
        "assumptions": COMMON_ASSUMPTIONS + [
            "T-COERCE: in a column that received several types a returned cell may be the supplied value or its image under the documented coercion (int as f64, number to_string).",
        ],
    },
}

MANIFEST_TEXT = {
    "C01": {
        "level_text": "Differential round-trip monitor over a class grid: every value class, null pattern, bitmap-boundary length, transport and residency named in the property is driven through the real ingestion and query path and each returned cell is compared with the supplied one; the codec signatures actually taken are recorded and required by a coverage floor. Exhaustive over the named classes, sampled inside each class.",
        "design_ref": "DESIGN.md section 3, C01",
        "level_note": "Trusted: harness model and generators; the wire encoder written against the capnp schema. Values inside a class are sampled (seeded).",
        "technique": "runtime differential monitor (cell-by-cell vs reference model) + panic/hang monitors + codec coverage monitor",
    },
}
