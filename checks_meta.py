"""Per-property metadata for the check driver: level, rule text, budgets, coverage floors, assumptions."""

COMMON_ASSUMPTIONS = [
    "The harness's reference model (values, logical tables) is the specification side; it shares no code with the engine.",
    "Only executions actually produced are decided: classes/lengths/representations listed in coverage.rule and coverage.observed.",
    "i64::MAX and the NaN bit pattern 0x7ffaaaaaaaaaaaaa are outside the value domain (engine NULL sentinels).",
]

META = {
    "C01": {
        "level": "exploration",
        "rule": "Deterministic grid: every int/float/string value class x every null pattern x lengths at the bitmap byte "
                "boundaries x transport (wire capnp, native struct, row API, client serialize/deserialize) x residency "
                "(unflushed buffer, flushed partition, evicted+reloaded from disk, restarted) x mem_lz4, plus type-degradation "
                "pairs (int/float/str/null first half then another type), the CSV load path (the same grid written to a text file and read by load_csv in chunks of 7 / 64 / 65536 rows; string columns declared always-string, columns with NULLs declared nullable; a float is what its shortest round-trip text parses to) and a seeded random fill. One evaluation = one "
                "returned column compared cell by cell (row view and column view) with the supplied cells. A case counts as "
                "distinct non-trivial per (kind, class, null pattern, length bucket, transport, config, stage, codec signature) "
                "when it has at least one non-null cell and, unless the pattern is 'none', at least one NULL.",
        "budget": {"quick": 90, "thorough": 450},
        "relfast": True,
        "floors": {
            "quick": {
                "evaluations": 20000, "distinct": 3000, "counters": {"csv_loads": 5},
                "sets": {"repr_kinds": ["wire:", "struct:", "rowapi:", "serde:", "csv:"], "codec_signatures": ["ToI64(U8)", "ToI64(U16)", "ToI64(U32)", "Add(U8)", "Add(U16)", "Add(U32)", "Delta(",
                                              "Dict(U8)", "Dict(U16)", "StrUnpack", "StrHexUnpack", "Nullable", "LZ4", "Pco"]},
            },
        },
        "assumptions": COMMON_ASSUMPTIONS + [
            "T-COERCE: in a column that received several types a returned cell may be the supplied value or its image under the documented coercion (int as f64, number to_string).",
        ],
    },
}

MANIFEST_TEXT = {}
MANIFEST_TEXT["C01"] = {
        "level_text": "Differential round-trip monitor over a class grid: every value class, null pattern, bitmap-boundary length, transport and residency named in the property is driven through the real ingestion and query path and each returned cell is compared with the supplied one; the codec signatures actually taken are recorded and required by a coverage floor. Exhaustive over the named classes, sampled inside each class.",
        "design_ref": "DESIGN.md section 3, C01",
        "level_note": "Trusted: harness model and generators; the wire encoder written against the capnp schema. Values inside a class are sampled (seeded).",
        "technique": "runtime differential monitor (cell-by-cell vs reference model) + panic/hang monitors + codec coverage monitor",
    }


TOL = [
    "T-FLOATSUM float SUM/AVG compared with relative tolerance 1e-9 * sum|x|; T-AVG integer AVG may be truncated or exact; T-TIES rows tying on all ORDER BY keys in any order; T-EMPTYAGG aggregates over zero filtered rows give zero groups.",
    "T-ERR: an error *value* (TypeError, NotImplemented, FatalError) makes no claim; statement shapes the engine rejects on the canonical realisation (one partition, dense, non-null) are outside the fragment (capability probe).",
    "T-INTFLOAT int/float comparisons are decided after `int as f64`; statements where the exact answer differs are not judged.",
]

META["C03"] = {
    "level": "exploration",
    "rule": "Tables with one column per encoding (u8/u16/u32 with and without offset, i64, delta, float, dictionary / packed / hex strings, nullable variants, columns absent from some partitions), 1-4 partitions, last batch optionally unflushed, some cases cold on disk. Predicates: col op const / const op col / col op col for the six comparison operators over int, float and string with constants below/at/inside/above the column range and outside the narrow encoding, IS [NOT] NULL, LIKE, regex, NOT and AND/OR trees of depth <= 3. One evaluation = SELECT id [,col] FROM t WHERE p compared as a sequence of ids with the three-valued reference evaluator. Distinct non-trivial = distinct (predicate label: operators, operand type pairs, constant position classes, nullability; codec signature of the first referenced column) whose reference answer is neither empty nor the whole table and on which engine and reference agree. Disagreements are shrunk to a minimal statement before being classified.",
    "budget": {"quick": 100, "thorough": 450},
    "relfast": True,
    "floors": {"quick": {"evaluations": 3000, "distinct": 300, "counters": {"nontrivial_agree": 400}}},
    "assumptions": COMMON_ASSUMPTIONS + TOL,
}
MANIFEST_TEXT["C03"] = {
    "level_text": "Differential monitor: thousands of generated predicates per run are executed by the real engine on tables that force every encoding, and the returned row ids are compared with a three-valued reference evaluation; constants are placed at the edges of and outside each column's encoded range. Sampling within an exhaustive operator x type x constant-class grid.",
    "design_ref": "DESIGN.md section 3, C03",
    "level_note": "Trusted: the reference evaluator (sql.rs) and the capability probe rule. Known engine defects are diagnosed on the minimal failing statement and listed in known_findings.jsonl.",
    "technique": "runtime differential monitor against a reference SQL evaluator, with statement shrinking and panic/hang monitors",
}

META["C04"] = {
    "level": "exploration",
    "rule": "Tables with grouping keys of controlled cardinality (1, 2, 10, 255, 256, 300, >65 535; negative and wide ranges; nullable; strings of low/high cardinality; floats) and int/float value columns, 1-6 partitions whose key sets are equal / disjoint / interleaved, optional unflushed tail and cold disk reads. Statements: 0-3 grouping expressions (columns, c/10, c%7) + 1-3 aggregates out of COUNT/SUM/MIN/MAX/AVG, optional simple WHERE, optional ORDER BY over all exact select items + LIMIT. One evaluation = one statement compared as a multiset of groups (or key sequence with tie groups when ordered) with the reference group-by; T-FLOATSUM/T-AVG apply. Distinct non-trivial = distinct (keys, aggregates, clauses, group-count bucket, partition count, partition relation, grouping strategy read from the executed plan) with >= 2 groups on which engine and reference agree. Disagreements are shrunk, then classified by a decision list (all-NULL aggregate input, column absent from a partition, ORDER BY on groups, number and kind of keys).",
    "budget": {"quick": 100, "thorough": 450},
    "relfast": True,
    "floors": {"quick": {"evaluations": 1500, "distinct": 150, "counters": {"multi_group_agree": 200, "groups_over_65535_agree": 1}}},
    "assumptions": COMMON_ASSUMPTIONS + TOL,
}
MANIFEST_TEXT["C04"] = {
    "level_text": "Differential monitor: generated grouped statements run on the real engine over 1-6 partitions with equal / disjoint / interleaved key sets and are compared, group by group, with a reference group-by (NULL as its own group, aggregates ignoring NULL, exact i128 sums). Cardinalities straddle the 256 and 65 536 thresholds; the grouping strategy actually executed is read from the plan. Large parts of multi-key / nullable-key grouping are known-defective in the engine and are classified as known findings, so the live assurance is strongest for group-less and single non-null key statements.",
    "design_ref": "DESIGN.md section 3, C04",
    "level_note": "Trusted: reference evaluator and tolerances. Known-finding classes are coarse for multi-key grouping (see DESIGN.md, Findings).",
    "technique": "runtime differential monitor (multiset of groups vs reference group-by) with shrinking, decision-list diagnosis, panic/hang monitors",
}

META["C07"] = {
    "level": "exploration",
    "rule": "Random histories (4-12 ops quick, up to 30 thorough) over {ingest(batch), force_flush, evict_cache, restart} on 1-2 disk-backed tables whose 3-8 columns are drawn from every C01 value class with NULL probabilities {0, .2, .6, 1} and columns withheld from every 2nd/3rd batch; partition_combine_factor in {0,1,2,4} so that compaction merges 1..k partitions at almost every flush, mem_lz4 on/off, sub-partition size {1 byte, 4 KiB, default}, tiny memory limit in some cases. At every maintenance step a probe battery (SELECT *, aggregate, filter, ORDER BY..LIMIT per table) must give identical answers immediately before and after, and SELECT * must equal the model after every op. One evaluation = one probe comparison. A step only counts as compaction if the catalogue (hook) shows partitions replaced, as eviction if bytes were evicted, as cold if a probe read from disk. Distinct non-trivial = distinct (what the step really did incl. merge arity, cold/warm, lz4, factor, sub-partition size, table count, two preceding ops).",
    "budget": {"quick": 120, "thorough": 450},
    "floors": {"quick": {"evaluations": 20000, "distinct": 100, "counters": {"compactions": 300, "evictions_with_effect": 100, "cold_reads_after_step": 100, "cgrid_merges_of_3_or_more": 24}}},
    "assumptions": COMMON_ASSUMPTIONS + ["Restarts inside a history reopen immediately after drop (as the repository's own ingestion_test does)."],
}
MANIFEST_TEXT["C07"] = {
    "level_text": "Step-invariance monitor over random maintenance histories: answers of a fixed probe battery are compared immediately before and after every flush / compaction / eviction / restart of the real database, and the full table content is compared with the model after every operation. The catalogue hook proves which steps really were compactions (and of what arity); coverage floors require hundreds of them per run.",
    "design_ref": "DESIGN.md section 3, C07",
    "level_note": "Trusted: model + cell comparison under T-COERCE. Histories are sampled (seeded), not enumerated.",
    "technique": "runtime before/after invariance monitor + differential comparison with a logical model, catalogue-hook coverage monitor",
}
META["C08"] = {
    "level": "exploration",
    "rule": "Bounded-exhaustive histories: every word of length <= 5 (quick; <= 7 thorough) over the alphabet {ingest->A, ingest->B, ingest->A+B (one request, two tables), force_flush, restart} that contains an ingest, each on a fresh disk-backed database, always followed by a final restart; plus random longer histories with max_wal_files in {1,2,1000}, max_wal_size_bytes in {0,200,64MiB}, io_threads {1,4}, compaction threads {1,3}, combine factor {0,1,4,999} and quiescent restarts (so background flushes run on their own). Batches carry dense int/float/string, sparse nullable int and a column only some requests have; uid = request*2^20+row identifies every row. After every restart and at the end: SELECT * of each table == model (exactly once, in order), _meta_tables lists each table once, _meta_columns_<t> lists each column once. One evaluation = one table/catalogue comparison. Distinct non-trivial = distinct history words with >= 1 ingest and >= 1 restart.",
    "budget": {"quick": 150, "thorough": 600},
    "exhaustive": {"quick": True, "thorough": False},
    "floors": {"quick": {"evaluations": 15000, "distinct": 3800}},
    "assumptions": COMMON_ASSUMPTIONS + ["Exhaustive part: restart = drop followed immediately by LocustDB::new (default WAL limits, so no background flush is pending); random part: restart waits for every thread of the old instance to exit (liveness hook)."],
}
MANIFEST_TEXT["C08"] = {
    "level_text": "Exactly-once history checker: all 3 843 informative histories of length <= 5 over {ingest A, ingest B, ingest A+B, flush, restart} are executed against the real storage engine on disk and after every restart each table must equal the model of acknowledged requests (unique uids: nothing lost, nothing replayed twice, order kept) and the catalogue must list every table/column once. Random longer histories with tiny WAL limits add background flushes.",
    "design_ref": "DESIGN.md section 3, C08",
    "level_note": "Exhaustive up to the stated length for one batch shape; beyond that sampled. Trusted: model, cell comparison.",
    "technique": "offline exactly-once checker over recorded ingest/flush/restart histories (bounded-exhaustive enumeration of real executions)",
}

META["C09"] = {
    "level": "fault_enumeration",
    "rule": "Crash model: effects reach the disk in program order, a crash keeps a prefix of the effect sequence, a temp file written but not yet synced may keep any prefix of its content; renames/removes are atomic. The fs-effect hook copies the database directory at every primitive effect boundary of FileBlobWriter (mkdir/create/write/sync/rename/remove) while short histories (3-8 ops over ingest->A, ingest->B, ingest->A+B, force_flush with combine factor 1/999/0/4, restart; io_threads 1/4) run: one crash image per boundary, plus 5 truncations of the temp file after each write effect. Every image (quick: an evenly spread subset of at most 60 exact images per history plus all truncations) is opened by a child process running the real recovery; oracle: open terminates (progress rule), content == model(acknowledged) or model(acknowledged + the one in-flight request, whole across its tables), no table listed twice, reopening again gives the same content, and for a sample a crash at effect 1/2 of the recovery followed by a reopen gives the same content. One evaluation = one child open judged. Distinct non-trivial = distinct (effect kind, file role wal/partition/meta, before/after, truncation class, during ingest/flush/recovery) on which recovery succeeded.",
    "budget": {"quick": 200, "thorough": 600},
    "exhaustive": {"quick": False, "thorough": True},
    "shards": 16,
    "floors": {"quick": {"evaluations": 3000, "distinct": 25, "counters": {"crash_images_captured": 1500, "crashes_during_recovery": 10}}},
    "assumptions": COMMON_ASSUMPTIONS + ["Prefix crash model as stated in the rule; directory-entry durability and torn sectors are out of scope (the code never fsyncs a directory).", "A single client issues the workload, so at most one request is in flight at any crash point."],
}
MANIFEST_TEXT["C09"] = {
    "level_text": "Fault enumeration on the real code: the file-system effect hook turns every primitive effect boundary of every history into a crash image (plus truncated-temp-file variants); each image is recovered by a child process running LocustDB::new and judged for termination, atomic content (acknowledged, or acknowledged plus the whole in-flight request), no duplicates and idempotence (second open, crash during recovery). Thorough tier evaluates every image of every history.",
    "design_ref": "DESIGN.md section 3, C09",
    "level_note": "Assumes the prefix crash model; one in-flight request; histories are sampled (seeded) but every effect boundary of a history is enumerated.",
    "technique": "fault injection by crash-image enumeration at hooked file-system effect boundaries + child-process recovery oracle",
}
META["C10"] = {
    "level": "exploration",
    "rule": "(1) Deterministic schedule exploration: for every sync-point label of flush/compaction/load (hook) and occurrence k, a flush+compaction of a 2-table database (two prepared partitions + buffered rows per table) is run with a gate at (label,k): when the flushing thread arrives there, a query battery / a second ingestion + battery / evict_cache + battery is started from another thread and the flush is held until that operation finished or 400 ms passed; then a final quiescent battery. combine factor {1,999} x mem_lz4 (quick; 6 variants thorough). (2) Randomised stress: one writer per table (3 tables, 40 requests each quick), 4 queriers, 1 flusher looping force_flush, an evicter in every second run, tiny WAL limits, random 0.2-2 ms delays at 30% of all sync points; 64 runs quick. Every ingestion request carries uids request*2^20+row. Offline checker over the recorded history (call/return times from one monotonic clock): every answer must equal the answer on concat(requests 1..j) for some j with acked_before(call) <= j <= started_before(return) (uids, aggregate, absent column, partially present column, filter, ORDER BY..LIMIT variants), and observations must be prefix-ordered in real time. One evaluation = one observation judged. Distinct non-trivial = distinct (gate label#occurrence, injected op, factor, lz4, overlapped|serialised) that fired, plus distinct stress configurations.",
    "budget": {"quick": 150, "thorough": 600},
    "floors": {"quick": {"evaluations": 20000, "distinct": 100, "counters": {"injected_overlapped": 80, "stress_observations": 10000, "stress_distinct_prefixes_observed": 500, "observations_inside_flush": 5000},
                         "sets": {"gate_points_hit": ["flush:after_freeze#1", "flush:table_batched#1", "flush:partitions_persisted#1", "compact:before_swap#1", "compact:after_swap#1", "compact:prepared#1", "flush:metastore_persisted#1", "flush:orphans_deleted#1"]}}},
    "assumptions": COMMON_ASSUMPTIONS + ["One writer thread per table, so the request order of a table is known; several tables collide on the global ingestion lock and on flushes.", "Interleavings inside a critical section that no sync point separates are reached only by the randomised stress."],
}
MANIFEST_TEXT["C10"] = {
    "level_text": "Offline prefix-consistency checker over client-boundary histories of the real database under (a) every placement of a query / ingestion / eviction at each hooked step boundary of a concurrent flush+compaction and (b) randomised multi-threaded stress with injected delays. Unique uids per request make every answer identify the prefix it observed; bounds come from real-time order of acknowledged/started requests.",
    "design_ref": "DESIGN.md section 3, C10",
    "level_note": "Schedules = placed sync points + random delays; not exhaustive over all interleavings. Known finding: eviction of not-yet-persisted partitions (meta_store.rs:143).",
    "technique": "runtime history recording + offline prefix-chain (append-only linearizability) checker, sync-point schedule enumeration, delay injection",
}
META["C13"] = {
    "level": "exploration",
    "rule": "Random histories (4-13 ops quick) over {ingest(batch with an arbitrary subset of a 19-name pool: case pairs a/A, UPPER/upper, non-ASCII, names of 75 bytes differing in the last byte, names sorting before/after all others, column_name / column_names / timestamp / name, a name with a space), force_flush, restart} on up to three tables (incl. the case pair t1/T1), combine factor {1,0,4} and sub-partition size {1 byte, 200, default} so that compaction and multi-file partitions carry the columns. Checked after (almost) every op - after a restart only sometimes, so that ingestion hits the lazily initialised name set first: SELECT * has exactly the ever-ingested column names, each once, with every cell equal to the model (NULL where a batch did not mention the column); _meta_tables lists every table once; _meta_columns_<t> lists every column once and nothing else; search_column_names agrees. One evaluation = one table / catalogue / search comparison.",
    "budget": {"quick": 120, "thorough": 450},
    "floors": {"quick": {"evaluations": 15000, "distinct": 400, "counters": {"new_name_first_seen_after_restart_before_any_query": 300, "flushes": 500, "restarts": 300}}},
    "assumptions": COMMON_ASSUMPTIONS,
}
MANIFEST_TEXT["C13"] = {
    "level_text": "Model-based history monitor: after every operation of random ingest/flush/restart histories with arbitrary column subsets from a hostile name pool, the set of column names returned by SELECT *, the catalogue tables and search_column_names are compared with the model, and every cell with the supplied value or NULL.",
    "design_ref": "DESIGN.md section 3, C13",
    "level_note": "Histories sampled (seeded); name pool fixed.",
    "technique": "runtime differential monitor of catalogue and table content against a logical model over ingest/flush/compaction/restart histories",
}
META["C18"] = {
    "level": "exploration",
    "rule": "Histories of 10-40 ops (quick; up to 200 thorough) over {ingest into one of 3-4 tables (one has a name that needs sanitising), force_flush} with combine factor {0,1,4,999}, sub-partition size {1 byte, 4 KiB, default}, io_threads {1,4}, compaction threads {1,3}. At every quiescent point (flush returned, nothing in flight, metrics logger off): recursive listing of the database directory == {meta} + {tables/<sanitised table>/<id>_<key>.part for every (partition, sub-partition) of the catalogue hook}; accounted WAL size == 0; conservation: files renamed into place minus files removed according to the fs-effect log == listing. Plus 8 runs where max_wal_size_bytes in {0,100,1000} holds ingestion back until the background flush has run (all requests must complete). One evaluation = one of these comparisons.",
    "budget": {"quick": 120, "thorough": 450},
    "floors": {"quick": {"evaluations": 8000, "distinct": 100, "counters": {"ingests_completed_under_wal_limit": 40, "ingests_that_had_to_wait_for_a_flush": 4}}},
    "assumptions": COMMON_ASSUMPTIONS + ["Quiescence = force_flush returned and the single client issued nothing else."],
}
MANIFEST_TEXT["C18"] = {
    "level_text": "Quiescent-point invariant monitor: after every completed flush the real directory listing must equal the file set derived from the catalogue (hook), the accounted WAL size must be zero and the created-minus-removed balance of the fs-effect log must equal the listing; blocked ingestion must resume.",
    "design_ref": "DESIGN.md section 3, C18",
    "level_note": "Trusted: catalogue accessor hook and the filename wrappers (the code's own naming functions).",
    "technique": "runtime invariant monitor at quiescent points (file-set equality, conservation over the fs-effect log)",
}

META["C14"] = {
    "level": "fault_enumeration",
    "rule": "(1) Round trips: partition files with 6 columns each drawn from every value class x null pattern x length {1,8,9,65,300,1500} (built with the engine's own ColumnBuffer through the hook): PartitionSegment::serialize -> VersionedChecksummedBlobWriter::store -> load -> deserialize must give identical name, len, range, codec ops, section kinds and section contents, and the stand-alone decoder must return the supplied cells; catalogues with 0-4 tables (hostile names), 1-4 partitions, 1-4 sub-partitions and cursors up to u64::MAX-1 through MetaStore serialize/deserialize; WAL segments for every ColumnData variant. (2) Fault enumeration on files written by a real database (one WAL segment, one partition file, the catalogue): EVERY single-bit flip, EVERY truncation length, suffixes of 1/8/4096 bytes and the empty file must be rejected by load() (never Ok with a different payload). (3) End to end for a sample of faults per file kind (bit flip, truncation, suffix, a valid file of another kind): a child process opens the directory; outcome must be rejection (open fails / blocks after a recorded panic / query error) or content identical to the uncorrupted database. One evaluation = one load/open judged. Distinct non-trivial = distinct codec signature x section layout round-tripped, catalogue shapes, WAL classes, fault classes.",
    "budget": {"quick": 100, "thorough": 450},
    "exhaustive": {"quick": True, "thorough": True},
    "floors": {"quick": {"evaluations": 9000, "distinct": 600, "counters": {"rejected:wal:bitflip:payload": 500, "rejected:partition:bitflip:payload": 500, "rejected:meta:bitflip:payload": 500, "rejected:wal:truncation": 100, "rejected:partition:truncation": 100, "rejected:meta:truncation": 100},
                         "sets": {"codec_signatures_roundtripped": ["Dict(U8)", "StrUnpack", "StrHexUnpack", "Delta(", "Add(U8)", "ToI64(U16)", "Nullable", "LZ4", "Pco"]}}},
    "assumptions": COMMON_ASSUMPTIONS + ["Exhaustive over bit positions and truncation lengths of the sampled files (a few hundred bytes each); the thorough tier repeats this over 20 file sets.", "A database open that blocks after rejecting a corrupted WAL segment counts as rejection here (non-termination is out of this property's scope)."],
}
MANIFEST_TEXT["C14"] = {
    "level_text": "Fault enumeration on the real storage code: every single-bit flip and every truncation length of real WAL / partition / catalogue files must be rejected by the checksummed loader, sampled faults are replayed end to end through LocustDB::new in a child process, and thousands of generated columns / catalogues / WAL segments must read back structurally and value-wise identical.",
    "design_ref": "DESIGN.md section 3, C14",
    "level_note": "Exhaustive for the sampled files; round-trip inputs are seeded samples over the class grid. Trusted: SHA-256 implementation, hook re-exports.",
    "technique": "exhaustive single-fault injection on stored bytes + round-trip monitors through the engine's own encoders/decoders",
}
META["C16"] = {
    "level": "exploration",
    "rule": "Round-trip oracles on the pure encode/decode functions: (a) ingestion messages for every value class x null pattern x length {0,1,2,7,8,9,64,65,200} carried as dense / sparse / i64 / sparse-i64 / string / mixed / empty columns: a message written against the capnp schema with an explicit row count must decode to the same tables, row counts, column kinds and cells; decode(encode(x)) must equal x; buffers built with the struct API and the row API (dense->sparse, int->float promotion) must serialise to the cells supplied. (b) MultiQueryResponse round trip of Int columns: empty, length 1/2/3, constant, arithmetic up/down, deltas and double deltas exactly at and one beyond the i8/i16/i32 bounds, sequences whose differences overflow i64 ([MIN,MAX], [MAX,MIN,MAX], [MIN,0,MAX]), random walks of six magnitudes; Float (NaN payloads, -0.0, inf), String (unicode), Mixed, Null, Xor. (c) xor_float::double: 14 sequences (repeats, sign flips, alternating magnitudes, specials, NaN payloads, subnormals, low-bit-only and high-bit-only changes, four value classes) x regret {0,1,100}: bit-exact without mantissa, and for EVERY mantissa 0..=52 sign, exponent and the leading m mantissa bits of every value preserved. One evaluation = one round trip judged.",
    "budget": {"quick": 60, "thorough": 600},
    "floors": {"quick": {"evaluations": 30000, "distinct": 5000}},
    "assumptions": COMMON_ASSUMPTIONS,
}
MANIFEST_TEXT["C16"] = {
    "level_text": "Round-trip monitors over the real wire codecs with boundary-directed inputs (delta widths at the i8/i16/i32 limits, differences overflowing i64, every mantissa setting 0..52, every ColumnData variant built three different ways); any panic in the codec is reported with its site.",
    "design_ref": "DESIGN.md section 3, C16",
    "level_note": "Pure functions, so millions of evaluations are cheap; inputs are boundary grids plus seeded samples.",
    "technique": "runtime round-trip (decode o encode = id) monitors with boundary-value generators",
}

META["C12"] = {
    "level": "exploration",
    "rule": "Query strings of three kinds run against a 3-partition table (one partition still in the open buffer) with every column kind: (a) 90 hand-listed constructs the SQL parser accepts but the engine does not, or that sit on edges (JOIN, GROUP BY, HAVING, DISTINCT, subquery, IN, BETWEEN, CASE, CAST, UNION, window functions, several statements, non-SELECT, LIMIT/OFFSET that are fractional / beyond u64 / beyond the table / without LIMIT, unknown table, unknown column, aggregates of wrong arity or type, constants as select items, duplicate aliases, comments, empty input, NUL, unterminated quotes); (b) grammar-generated statements of the supported subset with random nesting, three quoting styles, aliases, ten numeric literal forms (negative, leading zeros, fractional, exponent, > u64, .5, 5.), WHERE trees, ORDER BY, LIMIT/OFFSET around the table length, and grouped statements; (c) 1-3 byte-level edits (delete, duplicate, replace, insert from an alphabet with quotes/operators/non-ASCII, splice with another statement) of four valid statements. Oracle: the call returns (panic monitor at the caller, progress monitor); Ok answers are validated structurally: colnames vs columns (count, order, names), aliases used, equal column lengths, row view == column view cell by cell (NULL == in-band marker), rows <= LIMIT, unknown table is an error, unknown column all NULL. One evaluation = one string. Distinct non-trivial = distinct (kind/construct, outcome class).",
    "budget": {"quick": 90, "thorough": 450},
    "floors": {"quick": {"evaluations": 5000, "distinct": 60, "counters": {"answers_ok": 800, "errors:ParseError": 500}}},
    "assumptions": COMMON_ASSUMPTIONS + ["Only the envelope is judged here; values are C03-C06's business. A lost answer (Canceled) is reported through the panic monitor with the panic site."],
}
MANIFEST_TEXT["C12"] = {
    "level_text": "Robustness monitor at the API boundary: thousands of valid, unsupported and mutated query strings are submitted to the real engine; a panic in the caller, a panic in a worker (lost answer), a hang, or a structurally ill-formed Ok result is a violation.",
    "design_ref": "DESIGN.md section 3, C12",
    "level_note": "String space sampled (seeded) around a fixed construct list; remaining worker panics at known sites are listed as known findings.",
    "technique": "runtime robustness monitor (panic/hang monitors + structural result validator) under grammar-based and mutation fuzzing",
}

META["C11"] = {
    "level": "exploration",
    "rule": "Sequences of 30 (quick) / 60 requests against a database with 1/2/4/8 workers, memory-only or on disk, holding a two-partition table with one column per encoding plus a single-partition canary table: each step is a valid query or a failing request (108 requests: unparsable SQL, type errors, integer overflow, division by zero, every unsupported construct of the C12 list, unknown table, LIMIT/OFFSET beyond the table, aggregates over nothing, wrong arity, bad regex), issued from 1..8 client threads at once. After EVERY failing request: the canary query must return its known answer; every third time a worker census (as many single-partition queries as there are workers are held simultaneously at the query:before_partition sync point - possible iff that many workers are alive); with probability 0.3 an ingestion + force_flush + table_stats + mem_tree must return; at the end all acknowledged rows must be present. Liveness = the guard's progress rule (no CPU progress for 8 s while a call is pending, or a pending call after a database thread panicked). A request that kills a worker is reported by the panic monitor with its site (and the pool is restored with LocustDB::recover so the sequence continues). One evaluation = one request or follow-up judged. Distinct non-trivial = distinct (worker count, client count, failing request) after which a full census succeeded.",
    "budget": {"quick": 100, "thorough": 450},
    "floors": {"quick": {"evaluations": 3000, "distinct": 150, "counters": {"failing_requests": 600, "censuses": 200, "flushes_after_failing_request": 150}}},
    "assumptions": COMMON_ASSUMPTIONS + ["'Always returns' is restated as bounded progress; a livelock that keeps burning CPU without any recorded panic would be reported inconclusive, not violated."],
}
MANIFEST_TEXT["C11"] = {
    "level_text": "Service-continuity monitor: thousands of failing requests are mixed with valid ones from concurrent clients; after each failure a canary answer, a worker census through the sync-point hook, flush/ingest/statistics calls and the panic/poison/progress monitors decide whether the database was damaged.",
    "design_ref": "DESIGN.md section 3, C11",
    "level_note": "Liveness is bounded progress. Requests known to kill a worker at listed sites are known findings (the census itself is only evaluated after requests that returned an error value).",
    "technique": "runtime service-continuity monitor: canary + worker census via sync hook + panic/poison/progress monitors under failing-request sequences",
}
META["C15"] = {
    "level": "exploration",
    "rule": "Per case five table names out of a hostile list (case triple plain/Plain/PLAIN, '.', '..', '../escape', '../../escape2', 'a/b', '/abs', dotted, leading dots/dash, non-ASCII, spaces, 300-byte names differing in the last byte, ';', backslash) each receive two batches whose columns are subsets of the C13 name pool plus 8 random names (ASCII/upper/non-ASCII/spaces/dots/slashes), each batch flushed, sub-partition size limit in {1 byte (one column per file), 120, 4096, default}; then a quiescent restart. Every stored column is then read alone on the cold instance (a further restart before 12% of the probes) and must equal the model; never-stored neighbours of stored names (name + '_', name minus last char, upper-cased, names sorting before / after everything) must read all NULL; the number of directories under tables/ must equal the number of tables (user + catalogue); nothing may exist outside <sandbox>/db. Direct lane through the hook wrappers: sanitize_table_name on ~11 000 names (no separator, no leading dot, <= 255 bytes, injective on the observed inputs) and subpartition()/subpartition_key routing of every stored column to the file that contains it for random column sets and size limits. One evaluation = one column read / name / routing judged.",
    "budget": {"quick": 120, "thorough": 450},
    "floors": {"quick": {"evaluations": 10000, "distinct": 60, "counters": {"cold_column_reads": 1000, "directory_injectivity_checks": 20, "distinct_names_sanitised": 3000}}},
    "assumptions": COMMON_ASSUMPTIONS + ["Names containing a double quote or backslash are ingested but not queried (they cannot be written as a quoted SQL identifier)."],
}
MANIFEST_TEXT["C15"] = {
    "level_text": "Differential monitor per column on cold instances over hostile table / column names and every sub-partition size regime, plus directory census (injectivity, containment) and a direct enumeration lane over the engine's own naming / routing functions through the hook wrappers.",
    "design_ref": "DESIGN.md section 3, C15",
    "level_note": "Name pools are fixed lists plus seeded random names; injectivity is checked on the observed inputs only.",
    "technique": "runtime differential monitor (column-at-a-time cold reads vs model) + file-system census + direct monitors on hooked naming/routing functions",
}
META["C17"] = {
    "level": "exploration",
    "rule": "An in-process HTTP server (server::run on a free local port) and the embedded API share one database. Per case: three batches of a table with one column per encoding are sent through /insert_bin as capnp wire messages on a pool of 1/2/8 keep-alive connections (plain std::net::TcpStream HTTP/1.1 client, no code of the system under test), interleaved with queries and a flush; then 13 queries covering result kinds Int, Float, String, Null (unknown column), Mixed (nullable int / float / string), ints beyond 2^53, aggregates, ORDER BY/LIMIT, SELECT * are each answered by /query (rows JSON), /query_cols (columns JSON), /multi_query_cols as JSON, as binary, as binary with XOR float compression and as binary with XOR + a mantissa out of {0,3,10,23,52} + one full-precision column, and compared cell by cell with embedded run_query on the same database (JSON: integers exact, floats within 4e-16 relative because the client-side JSON parser is not exactly round-tripping, non-finite -> null; binary: bit-exact, NULL = reserved NaN, reduced mantissa keeps sign/exponent/leading bits). 7 failing queries x 3 endpoints must be answered with a 4xx/5xx status and the next request on the same connection pool must succeed. One evaluation = one HTTP answer judged.",
    "budget": {"quick": 100, "thorough": 450},
    "floors": {"quick": {"evaluations": 3000, "distinct": 60, "counters": {"failing_queries_answered_with_error_status": 300, "inserts_ok": 60},
                         "sets": {"embedded_column_kinds_compared": ["Int", "Float", "String", "Null", "Mixed"]}}},
    "assumptions": COMMON_ASSUMPTIONS + ["The embedded answer is taken immediately after the HTTP answer on a quiescent database (no concurrent writer during a comparison)."],
}
MANIFEST_TEXT["C17"] = {
    "level_text": "Differential monitor between the real HTTP server (all three query endpoints, JSON and the three binary encodings) and the embedded API on the same database instance, with inserts through the binary endpoint, a connection pool, and failing queries that must map to error statuses without stopping the server.",
    "design_ref": "DESIGN.md section 3, C17",
    "level_note": "Client is an independent minimal HTTP/1.1 implementation; JSON float comparison tolerates the client parser's last-bit error.",
    "technique": "runtime differential monitor HTTP vs embedded API + error-status / continued-service monitor",
}

META["C05"] = {
    "level": "exploration",
    "rule": "Tables with sort-key columns of every kind (u8, nullable u8, offset, negative offset, u16, full i64, nullable i64, heavy ties, constant, float, nullable float, dictionary / nullable / high-cardinality / hex strings), 40-2600 rows in 1-5 partitions of unequal length (optionally unflushed tail, cold disk). Statements SELECT id[, keys] FROM t [WHERE p] ORDER BY k1 [DESC][, k2, k3] LIMIT n OFFSET m with 0-3 keys (columns and c/10 expressions, every ASC/DESC mix) and n, m drawn from {0,1,2, L/2-1, L/2, L/2+1, L-1, L, L+1, N-1, N, N+1, N+2} (L = longest partition, N = table), plus LIMIT/OFFSET without ORDER BY (ingestion order). Oracle: result length = min(n, max(0, N-m)); the key tuple at every position equals the reference key sequence (unique even with ties); every returned row is an unused row of the table carrying exactly that key tuple (ties in any order, no duplicates). Distinct non-trivial = distinct (key kinds + directions, clauses, limit/offset position classes, partition count, sort operators seen in the executed plan) with more than one candidate row. Disagreements are shrunk and classified.",
    "budget": {"quick": 100, "thorough": 450},
    "relfast": True,
    "floors": {"quick": {"evaluations": 2500, "distinct": 500, "counters": {"nontrivial_agree": 1000}, "sets": {"sort_paths": ["top_n", "sort_by"]}}},
    "assumptions": COMMON_ASSUMPTIONS + TOL,
}
MANIFEST_TEXT["C05"] = {
    "level_text": "Differential monitor for ordered / limited statements: key sequence and tie-group membership are compared with a reference sort (NULL last, first when descending) at limits and offsets placed around the top-n / full-sort switch (L/2), the partition length and the table length, over 1-5 partitions; the sort operators actually executed are read from the plan.",
    "design_ref": "DESIGN.md section 3, C05",
    "level_note": "Trusted: reference comparator. Known finding: secondary keys ignored among rows whose leading key is NULL.",
    "technique": "runtime differential monitor (key sequence + tie groups vs reference sort) with shrinking and panic/hang monitors",
}
META["C06"] = {
    "level": "exploration",
    "rule": "Integer columns in every narrow encoding (u8, nullable u8, positive and negative offset, u16, u32, small mixed sign) plus raw-i64 columns holding the edge values {0, +-1, 2, 255, 256, 65535, 65536, 2^32-1, 2^32, 2^32+1, i64::MIN, i64::MIN+1, 2^63-2, +-2^62, 3037000499, 3037000500}, a zero-rich divisor column and a strictly positive one; 30-400 rows in 1-4 partitions. Statements: SELECT id, e FROM t with expression trees of depth <= 3 over {+,-,*,/,%}, columns and edge constants; and SUM over three layouts (overflow inside one partition, only when partial sums of >= 2 partitions merge, transiently although the total fits) with and without grouping. Oracle (i128 reference): if any row overflows i64 or divides by zero the query must NOT return a result (T-OVF); otherwise every cell must be exact, NULL operands give NULL; a transient SUM overflow may return the exact total or fail, never another number. Distinct non-trivial = distinct (expression shape, must_fail | must_be_exact).",
    "budget": {"quick": 100, "thorough": 450},
    "relfast": True,
    "floors": {"quick": {"evaluations": 3000, "distinct": 400, "counters": {"agree:must_fail": 500, "agree:must_be_exact": 500, "boundary_grid_statements": 8000}}},
    "assumptions": COMMON_ASSUMPTIONS + TOL + ["A spurious Overflow error (e.g. (i64::MIN+1) / -1) is an error value and makes no claim: the property allows the query to fail."],
}
MANIFEST_TEXT["C06"] = {
    "level_text": "Differential monitor against exact i128 arithmetic with operands placed on the edges of every encoding and of i64: statements whose reference overflows or divides by zero must fail, all others must be cell-exact; SUM layouts separate overflow inside a partition, at merge time and transient overflow. The thorough tier repeats the run on a wrapping (release-semantics) build.",
    "design_ref": "DESIGN.md section 3, C06",
    "level_note": "Quick tier runs the overflow-checking build (a missing check shows as a worker panic); the thorough tier adds the relfast profile where it shows as a wrong number.",
    "technique": "runtime differential monitor against an exact-arithmetic reference, boundary-value operand generators, two build profiles",
}
META["C02"] = {
    "level": "exploration",
    "rule": "Per case one logical table (one column per encoding incl. nullable and partially absent columns, 90 / 300 / 1400 rows) is realised as a baseline (one unflushed batch, memory only, 1 thread) and k=4 (quick) / 12 other layouts drawn from: 1-6 batches at random cut points, flush after a random subset, partition_combine_factor {0,1,4,999}, mem_lz4 on/off, max_partition_size_bytes {1,64,4096,default}, batch_size {8,16,64,1024}, threads {1,2,8}, memory / disk / evicted / restarted-and-cold (each option value at least once per case family). A battery of 40 statements per case (plain select, WHERE trees, single-key and group-less aggregates, ORDER BY..LIMIT/OFFSET, integer arithmetic) runs on every layout. Oracle: each answer equals the reference answer (with shrinking/diagnosis as in C03-C06) and equals the baseline's answer (multiset for unordered groups, float sums within 1e-9 relative); where the reference makes no claim the pairwise comparison alone decides. Layout coverage is measured from public observations (partition count, file count, cold reads). One evaluation = one answer or pair judged. Distinct non-trivial = distinct (statement family, partition count, disk, factor, batch size, threads) pairs that agreed with the baseline.",
    "budget": {"quick": 120, "thorough": 450},
    "relfast": True,
    "floors": {"quick": {"evaluations": 6000, "distinct": 250, "counters": {"pairs_equal": 2500, "cold_queries": 50},
                         "sets": {"option_values": ["factor=0", "factor=1", "factor=4", "factor=999", "subpart=1", "subpart=64", "subpart=4096", "batch=8", "batch=16", "batch=64", "batch=1024", "threads=1", "threads=2", "threads=8"]}}},
    "assumptions": COMMON_ASSUMPTIONS + TOL + ["Multi-key / nullable-key grouping is excluded from the battery (C04 known findings); an error value on one layout only is counted, not judged."],
}
MANIFEST_TEXT["C02"] = {
    "level_text": "Metamorphic + differential monitor: the same logical table in a baseline and several random physical realisations (splits, flush points, compaction factor, compression, sub-partition size, streaming batch size, worker threads, memory / disk / evicted / restarted) must answer every statement of a mixed battery identically and like the reference; the layouts actually produced are measured.",
    "design_ref": "DESIGN.md section 3, C02",
    "level_note": "Realisations and statements are seeded samples; every option value named in the property is covered per run (coverage floor).",
    "technique": "runtime metamorphic monitor (pairwise equality across physical realisations) + differential comparison with a reference evaluator",
}


# AddressSanitizer lane (thorough tier): the same workload generators run once more on a build of /repo + harness with
# -Zsanitizer=address (pinned nightly, target x86_64-unknown-linux-gnu). Chosen where the workload reaches the engine's
# unsafe code: codecs / packed strings (C01, C07, C16), vectorised operators and the lifetime-erased scratchpad / query
# task (C02-C06, C12), and columns dropped under running queries (C10, C11).
for _p in ("C01", "C02", "C03", "C04", "C05", "C06", "C07", "C10", "C11", "C12", "C16"):
    META[_p]["asan"] = True
    MANIFEST_TEXT[_p]["technique"] += "; thorough tier adds an AddressSanitizer build of the same workload (self-tested, report = violation)"

# Interpreter lane (thorough tier): tiny workloads (harness/src/props/sanlane.rs) under Miri on a scratch copy of /repo
# (compat/nightly_compat.py): undefined behaviour in the unsafe code reached, data races between database threads.
for _p, _lanes in (("C01", ["MIRI-column", "MIRI-db"]), ("C07", ["MIRI-column", "MIRI-db"]), ("C10", ["MIRI-db"]), ("C14", ["MIRI-files"]), ("C16", ["MIRI-codec"])):
    META[_p]["miri"] = _lanes
    MANIFEST_TEXT[_p]["technique"] += "; thorough tier adds a Miri (undefined-behaviour / data-race interpreter) run of tiny versions of the workload (self-tested, report = violation)"

# ThreadSanitizer lane (thorough tier): the quick-tier concurrency workloads on a -Zsanitizer=thread build (instrumented std).
for _p in ("C10", "C11"):
    META[_p]["tsan"] = True
    MANIFEST_TEXT[_p]["technique"] += "; thorough tier adds a ThreadSanitizer build of the same workload (self-tested, data-race report = violation)"

META["C07"]["rule"] += " Plus a deterministic compaction grid (always run): one table whose 375 columns enumerate every sequence of per-partition column modes over three consecutive partitions (dense, nullable, absent, empty, trailing NULLs) for int / float / string columns, 6 row-count profiles that put chunk boundaries on and off null-map byte boundaries, mem_lz4 on/off, merged three at a time (combine factor 2, twice per case) or five at a time (factor 4); the table is compared with the model after every step, after eviction and after a restart; the catalogue hook proves the merge arity (floor on merges of >= 3 partitions)."
META["C06"]["rule"] += " Plus a deterministic boundary grid (always run): every integer column x {+,-,*,/,%} x both operand orders against constants at and next to the i64 limits (MAX-1 .. MAX-65536, MIN+1 .. MIN+65536) and the encoding boundaries, a rotating slice per case so that one run covers the grid."

META["C17"]["floors"]["quick"].setdefault("sets", {})["full_precision_column_kinds"] = ["dense_float", "nullable_float"]
