"""Per-property metadata for the check driver: level, rule text, budgets, coverage floors, assumptions."""

COMMON_ASSUMPTIONS = [
    "The harness's reference model (values, logical tables) is the specification side; it shares no code with the engine.",
    "Only executions actually produced are decided: classes/lengths/representations listed in coverage.rule and coverage.observed.",
    "i64::MAX and the NaN bit pattern 0x7ffaaaaaaaaaaaaa are outside the value domain (engine NULL sentinels).",
]

META = {
    "C01": {
        "level": "exploration",
        "rule": "Deterministic grid: every int/float/string value class x every null pattern x lengths at the bitmap byte "
                "boundaries x transport (wire capnp, native struct, row API, client serialize/deserialize) x residency "
                "(unflushed buffer, flushed partition, evicted+reloaded from disk, restarted) x mem_lz4, plus type-degradation "
                "pairs (int/float/str/null first half then another type) and a seeded random fill. One evaluation = one "
                "returned column compared cell by cell (row view and column view) with the supplied cells. A case counts as "
                "distinct non-trivial per (kind, class, null pattern, length bucket, transport, config, stage, codec signature) "
                "when it has at least one non-null cell and, unless the pattern is 'none', at least one NULL.",
        "budget": {"quick": 90, "thorough": 1200},
        "relfast": True,
        "floors": {
            "quick": {
                "evaluations": 20000, "distinct": 3000,
                "sets": {"codec_signatures": ["ToI64(U8)", "ToI64(U16)", "ToI64(U32)", "Add(U8)", "Add(U16)", "Add(U32)", "Delta(",
                                              "Dict(U8)", "Dict(U16)", "StrUnpack", "StrHexUnpack", "Nullable", "LZ4", "Pco"]},
            },
        },
        "assumptions": COMMON_ASSUMPTIONS + [
            "T-COERCE: in a column that received several types a returned cell may be the supplied value or its image under the documented coercion (int as f64, number to_string).",
        ],
    },
}

MANIFEST_TEXT = {}
MANIFEST_TEXT["C01"] = {
        "level_text": "Differential round-trip monitor over a class grid: every value class, null pattern, bitmap-boundary length, transport and residency named in the property is driven through the real ingestion and query path and each returned cell is compared with the supplied one; the codec signatures actually taken are recorded and required by a coverage floor. Exhaustive over the named classes, sampled inside each class.",
        "design_ref": "DESIGN.md section 3, C01",
        "level_note": "Trusted: harness model and generators; the wire encoder written against the capnp schema. Values inside a class are sampled (seeded).",
        "technique": "runtime differential monitor (cell-by-cell vs reference model) + panic/hang monitors + codec coverage monitor",
    }


TOL = [
    "T-FLOATSUM float SUM/AVG compared with relative tolerance 1e-9 * sum|x|; T-AVG integer AVG may be truncated or exact; T-TIES rows tying on all ORDER BY keys in any order; T-EMPTYAGG aggregates over zero filtered rows give zero groups.",
    "T-ERR: an error *value* (TypeError, NotImplemented, FatalError) makes no claim; statement shapes the engine rejects on the canonical realisation (one partition, dense, non-null) are outside the fragment (capability probe).",
    "T-INTFLOAT int/float comparisons are decided after `int as f64`; statements where the exact answer differs are not judged.",
]

META["C03"] = {
    "level": "exploration",
    "rule": "Tables with one column per encoding (u8/u16/u32 with and without offset, i64, delta, float, dictionary / packed / hex strings, nullable variants, columns absent from some partitions), 1-4 partitions, last batch optionally unflushed, some cases cold on disk. Predicates: col op const / const op col / col op col for the six comparison operators over int, float and string with constants below/at/inside/above the column range and outside the narrow encoding, IS [NOT] NULL, LIKE, regex, NOT and AND/OR trees of depth <= 3. One evaluation = SELECT id [,col] FROM t WHERE p compared as a sequence of ids with the three-valued reference evaluator. Distinct non-trivial = distinct (predicate label: operators, operand type pairs, constant position classes, nullability; codec signature of the first referenced column) whose reference answer is neither empty nor the whole table and on which engine and reference agree. Disagreements are shrunk to a minimal statement before being classified.",
    "budget": {"quick": 100, "thorough": 1200},
    "relfast": True,
    "floors": {"quick": {"evaluations": 3000, "distinct": 300, "counters": {"nontrivial_agree": 400}}},
    "assumptions": COMMON_ASSUMPTIONS + TOL,
}
MANIFEST_TEXT["C03"] = {
    "level_text": "Differential monitor: thousands of generated predicates per run are executed by the real engine on tables that force every encoding, and the returned row ids are compared with a three-valued reference evaluation; constants are placed at the edges of and outside each column's encoded range. Sampling within an exhaustive operator x type x constant-class grid.",
    "design_ref": "DESIGN.md section 3, C03",
    "level_note": "Trusted: the reference evaluator (sql.rs) and the capability probe rule. Known engine defects are diagnosed on the minimal failing statement and listed in known_findings.jsonl.",
    "technique": "runtime differential monitor against a reference SQL evaluator, with statement shrinking and panic/hang monitors",
}

META["C04"] = {
    "level": "exploration",
    "rule": "Tables with grouping keys of controlled cardinality (1, 2, 10, 255, 256, 300, >65 535; negative and wide ranges; nullable; strings of low/high cardinality; floats) and int/float value columns, 1-6 partitions whose key sets are equal / disjoint / interleaved, optional unflushed tail and cold disk reads. Statements: 0-3 grouping expressions (columns, c/10, c%7) + 1-3 aggregates out of COUNT/SUM/MIN/MAX/AVG, optional simple WHERE, optional ORDER BY over all exact select items + LIMIT. One evaluation = one statement compared as a multiset of groups (or key sequence with tie groups when ordered) with the reference group-by; T-FLOATSUM/T-AVG apply. Distinct non-trivial = distinct (keys, aggregates, clauses, group-count bucket, partition count, partition relation, grouping strategy read from the executed plan) with >= 2 groups on which engine and reference agree. Disagreements are shrunk, then classified by a decision list (all-NULL aggregate input, column absent from a partition, ORDER BY on groups, number and kind of keys).",
    "budget": {"quick": 100, "thorough": 1200},
    "relfast": True,
    "floors": {"quick": {"evaluations": 1500, "distinct": 150, "counters": {"multi_group_agree": 200, "groups_over_65535_agree": 1}}},
    "assumptions": COMMON_ASSUMPTIONS + TOL,
}
MANIFEST_TEXT["C04"] = {
    "level_text": "Differential monitor: generated grouped statements run on the real engine over 1-6 partitions with equal / disjoint / interleaved key sets and are compared, group by group, with a reference group-by (NULL as its own group, aggregates ignoring NULL, exact i128 sums). Cardinalities straddle the 256 and 65 536 thresholds; the grouping strategy actually executed is read from the plan. Large parts of multi-key / nullable-key grouping are known-defective in the engine and are classified as known findings, so the live assurance is strongest for group-less and single non-null key statements.",
    "design_ref": "DESIGN.md section 3, C04",
    "level_note": "Trusted: reference evaluator and tolerances. Known-finding classes are coarse for multi-key grouping (see DESIGN.md, Findings).",
    "technique": "runtime differential monitor (multiset of groups vs reference group-by) with shrinking, decision-list diagnosis, panic/hang monitors",
}

META["C07"] = {
    "level": "exploration",
    "rule": "Random histories (4-12 ops quick, up to 30 thorough) over {ingest(batch), force_flush, evict_cache, restart} on 1-2 disk-backed tables whose 3-8 columns are drawn from every C01 value class with NULL probabilities {0, .2, .6, 1} and columns withheld from every 2nd/3rd batch; partition_combine_factor in {0,1,2,4} so that compaction merges 1..k partitions at almost every flush, mem_lz4 on/off, sub-partition size {1 byte, 4 KiB, default}, tiny memory limit in some cases. At every maintenance step a probe battery (SELECT *, aggregate, filter, ORDER BY..LIMIT per table) must give identical answers immediately before and after, and SELECT * must equal the model after every op. One evaluation = one probe comparison. A step only counts as compaction if the catalogue (hook) shows partitions replaced, as eviction if bytes were evicted, as cold if a probe read from disk. Distinct non-trivial = distinct (what the step really did incl. merge arity, cold/warm, lz4, factor, sub-partition size, table count, two preceding ops).",
    "budget": {"quick": 120, "thorough": 1200},
    "floors": {"quick": {"evaluations": 20000, "distinct": 100, "counters": {"compactions": 300, "evictions_with_effect": 100, "cold_reads_after_step": 100}}},
    "assumptions": COMMON_ASSUMPTIONS + ["Restarts inside a history reopen immediately after drop (as the repository's own ingestion_test does)."],
}
MANIFEST_TEXT["C07"] = {
    "level_text": "Step-invariance monitor over random maintenance histories: answers of a fixed probe battery are compared immediately before and after every flush / compaction / eviction / restart of the real database, and the full table content is compared with the model after every operation. The catalogue hook proves which steps really were compactions (and of what arity); coverage floors require hundreds of them per run.",
    "design_ref": "DESIGN.md section 3, C07",
    "level_note": "Trusted: model + cell comparison under T-COERCE. Histories are sampled (seeded), not enumerated.",
    "technique": "runtime before/after invariance monitor + differential comparison with a logical model, catalogue-hook coverage monitor",
}
META["C08"] = {
    "level": "exploration",
    "rule": "Bounded-exhaustive histories: every word of length <= 5 (quick; <= 7 thorough) over the alphabet {ingest->A, ingest->B, ingest->A+B (one request, two tables), force_flush, restart} that contains an ingest, each on a fresh disk-backed database, always followed by a final restart; plus random longer histories with max_wal_files in {1,2,1000}, max_wal_size_bytes in {0,200,64MiB}, io_threads {1,4}, compaction threads {1,3}, combine factor {0,1,4,999} and quiescent restarts (so background flushes run on their own). Batches carry dense int/float/string, sparse nullable int and a column only some requests have; uid = request*2^20+row identifies every row. After every restart and at the end: SELECT * of each table == model (exactly once, in order), _meta_tables lists each table once, _meta_columns_<t> lists each column once. One evaluation = one table/catalogue comparison. Distinct non-trivial = distinct history words with >= 1 ingest and >= 1 restart.",
    "budget": {"quick": 150, "thorough": 1500},
    "exhaustive": {"quick": True, "thorough": False},
    "floors": {"quick": {"evaluations": 15000, "distinct": 3800}},
    "assumptions": COMMON_ASSUMPTIONS + ["Exhaustive part: restart = drop followed immediately by LocustDB::new (default WAL limits, so no background flush is pending); random part: restart waits for every thread of the old instance to exit (liveness hook)."],
}
MANIFEST_TEXT["C08"] = {
    "level_text": "Exactly-once history checker: all 3 843 informative histories of length <= 5 over {ingest A, ingest B, ingest A+B, flush, restart} are executed against the real storage engine on disk and after every restart each table must equal the model of acknowledged requests (unique uids: nothing lost, nothing replayed twice, order kept) and the catalogue must list every table/column once. Random longer histories with tiny WAL limits add background flushes.",
    "design_ref": "DESIGN.md section 3, C08",
    "level_note": "Exhaustive up to the stated length for one batch shape; beyond that sampled. Trusted: model, cell comparison.",
    "technique": "offline exactly-once checker over recorded ingest/flush/restart histories (bounded-exhaustive enumeration of real executions)",
}
