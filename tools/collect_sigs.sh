#!/bin/bash
# usage: tools/collect_sigs.sh <prop> <seed>... : distinct unlisted signatures over several seeds
prop=$1; shift
cd /verif
for seed in "$@"; do VERIF_SEED=$seed LVERIF_KEEP=1 ./check $prop --tier quick --no-build 2>&1 | grep "    signature: " | sed 's/.*signature: //'; done | sort | uniq -c | sort -rn
