#!/bin/bash
# usage: tools/run_all.sh <quick|thorough> [seed] : run every registered check once, one after the other, log to logs/<tier>-<seed>/
tier=${1:-quick}; seed=${2:-1}
cd /verif || exit 1
mkdir -p logs/$tier-$seed
for p in C01 C02 C03 C04 C05 C06 C07 C08 C09 C10 C11 C12 C13 C14 C15 C16 C17 C18; do
  t0=$(date +%s)
  VERIF_SEED=$seed ./check $p --tier $tier > logs/$tier-$seed/$p.log 2>&1
  rc=$?
  echo "$p exit=$rc wall=$(( $(date +%s) - t0 ))s $(grep -c '^VIOLATION' logs/$tier-$seed/$p.log) violations $(grep -c '^INCONCLUSIVE' logs/$tier-$seed/$p.log) inconclusive" | tee -a logs/$tier-$seed/SUMMARY
done
