#!/bin/bash
# usage: tools/detect_seed.sh <worktree-id> <PROP> [<PROP>...] : run the quick checks against the scratch worktree /tmp/wt_<id>
# (which holds the seeded change) through a shadow harness; /repo and /verif/evidence are not touched.
id=$1; shift
wt=/tmp/wt_$id
cd $wt || exit 1
git checkout -q -- src locustdb-serialization locustdb-compression-utils
git apply /verif/seeded/$id/patch.diff || { echo "PATCH DOES NOT APPLY"; exit 2; }
for prop in "$@"; do
  (cd /verif && LVERIF_REPO=$wt ./check $prop --tier ${TIER:-quick} > /verif/seeded/$id/detect_$prop.log 2>&1; echo "exit=$?" >> /verif/seeded/$id/detect_$prop.log)
  echo "$id $prop: $(grep -c '^VIOLATION' /verif/seeded/$id/detect_$prop.log) violations, $(grep -c '^KNOWN-FINDING' /verif/seeded/$id/detect_$prop.log) known, $(tail -1 /verif/seeded/$id/detect_$prop.log)"
done
