#!/bin/bash
# re-run the fixed-port integration tests of a seed worktree alone (after a port collision) and append to confirm.log
id=$1
cd /tmp/wt_$id || exit 1
mv tests/seed_demo.rs /tmp/seed_demo_$id.rs 2>/dev/null
{ echo "== ingestion_test re-run alone (fixed TCP ports were taken by a concurrent run before)"; timeout 900 cargo test --offline --test ingestion_test 2>&1 | grep -E "^test |test result"; } >> /verif/seeded/$id/confirm.log 2>&1
mv /tmp/seed_demo_$id.rs tests/seed_demo.rs 2>/dev/null
tail -2 /verif/seeded/$id/confirm.log
