#!/bin/bash
# usage: tools/run_seed.sh <seed-id> <PROP> [<PROP>...] : apply the seeded change to /repo, run the checks, undo it
id=$1; shift
patch=/verif/seeded/$id/patch.diff
cd /repo || exit 1
if [ -n "$(git status --porcelain -- src locustdb-serialization locustdb-compression-utils)" ]; then echo "/repo not clean"; exit 2; fi
git apply --check $patch || { echo "patch does not apply to current /repo"; exit 3; }
git apply $patch
for prop in "$@"; do
  cp /verif/evidence/$prop.json /tmp/evidence_$prop.keep 2>/dev/null   # evidence/ must only ever describe runs on the unchanged tree
  (cd /verif && LVERIF_KEEP= ./check $prop --tier quick > /verif/seeded/$id/detect_$prop.log 2>&1; echo "exit=$?" >> /verif/seeded/$id/detect_$prop.log)
  cp /verif/evidence/$prop.json /verif/seeded/$id/evidence_$prop.json 2>/dev/null
  mv /tmp/evidence_$prop.keep /verif/evidence/$prop.json 2>/dev/null
  echo "$id $prop: $(grep -c '^VIOLATION' /verif/seeded/$id/detect_$prop.log) violations, $(tail -1 /verif/seeded/$id/detect_$prop.log)"
done
git -C /repo checkout -- .
# rebuild the harness against the clean tree so later runs start from a clean state
(cd /verif/harness && cargo build --offline > /dev/null 2>&1)
