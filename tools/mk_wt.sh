#!/bin/bash
# usage: tools/mk_wt.sh <id> : scratch worktree of /repo HEAD at /tmp/wt_<id> with a warm copy of /repo/target (deps only are reused)
id=$1
wt=/tmp/wt_$id
git -C /repo worktree add --detach $wt HEAD >/dev/null 2>&1 || { echo "worktree add failed"; exit 1; }
[ -d /repo/target ] && cp -a /repo/target $wt/target
mkdir -p $wt/SEED_OUT
echo $wt
