#!/bin/bash
# usage: tools/confirm_seed.sh <worktree-id> <PROP> : confirm a seeded change in its scratch worktree and archive it
# (demo fails with the change, passes without it; existing suite passes with the change)
id=$1; prop=$2
wt=/tmp/wt_$id
out=/verif/seeded/$id
mkdir -p $out
cd $wt || exit 1
cp SEED_OUT/patch.diff SEED_OUT/meta.json $out/ 2>/dev/null
cp SEED_OUT/seed_demo.rs $out/ 2>/dev/null
{
echo "== worktree diff stat"; git diff --stat -- src locustdb-serialization locustdb-compression-utils
# make sure the worktree holds exactly the archived patch
git checkout -q -- src locustdb-serialization locustdb-compression-utils
git apply SEED_OUT/patch.diff || { echo "PATCH DOES NOT APPLY"; exit 2; }
cp SEED_OUT/seed_demo.rs tests/seed_demo.rs
echo "== demo WITH change (expect failure)"
timeout 900 cargo test --offline --test seed_demo 2>&1 | tail -15
echo "demo_with_change_exit=${PIPESTATUS[0]}"
git apply -R SEED_OUT/patch.diff
echo "== demo WITHOUT change (expect pass)"
timeout 900 cargo test --offline --test seed_demo 2>&1 | tail -6
echo "demo_without_change_exit=${PIPESTATUS[0]}"
git apply SEED_OUT/patch.diff
echo "== existing suite WITH change"
mv tests/seed_demo.rs /tmp/seed_demo_$id.rs
timeout 1800 cargo test --offline 2>&1 | grep -E "^test result|FAILED|failed|panicked" | head -20
mv /tmp/seed_demo_$id.rs tests/seed_demo.rs
} > $out/confirm.log 2>&1
echo "confirmed $id -> $out/confirm.log"
