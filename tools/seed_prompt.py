#!/usr/bin/env python3
"""print the prompt for a seeding sub-agent: tools/seed_prompt.py <prop> <worktree-id> <hint>"""
import json, sys
prop, wid, hint = sys.argv[1], sys.argv[2], sys.argv[3]
p = next(json.loads(l) for l in open('/verif/properties.jsonl') if json.loads(l)['id'] == prop)
print(f"""You are helping to test a verification framework for the Rust project cswinter/LocustDB (an in-memory/on-disk columnar analytics database). Your job is to play the role of a realistic, subtle regression.

You have your own scratch git worktree of the repository at /tmp/wt_{wid} (work ONLY there; never touch /repo or /verif, never read anything under /verif). The sandbox is offline: always use `cargo ... --offline`. The worktree has a warm `target/` directory, the first build of the locustdb crate still takes a few minutes. Other agents are building at the same time, so builds are slow; be patient and use long timeouts (up to 30 min) for cargo commands.

The property that users of LocustDB rely on:

  "{p['title']}": {p['statement']}

TASK: make a change to the LocustDB source code (src/, locustdb-serialization/, locustdb-compression-utils/ - not tests, not Cargo files) that BREAKS this property, while
  (1) the code still compiles (`cargo build --offline`),
  (2) the ENTIRE existing test suite still passes with your change: `cargo test --offline` (124 tests: lib unit tests + tests/query_tests.rs + tests/ingestion_test.rs; do not edit, delete or ignore any test). Note: tests/ingestion_test.rs uses fixed TCP ports that can collide with other agents' runs (AddrInUse) - if a test of that file fails for that reason only, re-run that single test alone until it gets its port,
  (3) the change looks like something a maintainer could plausibly commit (a refactoring gone slightly wrong, an optimisation with a missed case, an off-by-one at a boundary, a reordering of two steps, a lock released too early, a forgotten case in a match) - no sabotage-looking code, no special-casing of magic values, no randomness, no env vars, no dead flags,
  (4) the breakage needs something SPECIFIC to manifest - {hint} - so ordinary simple use (and the existing tests) does not expose it at once. Prefer small diffs (1-30 changed lines).

Read the relevant code first to find a good spot. Then write a DEMONSTRATION: a Rust integration test file `tests/seed_demo.rs` in your worktree (using only the crate's public API and the dev-dependencies already in Cargo.toml, e.g. tempfile, futures) that FAILS with your change and PASSES without it (verify both: `git stash` / `git apply -R` your patch, run `cargo test --offline --test seed_demo`, re-apply). The demo must check the property itself (wrong/missing rows, changed values, a hang detected with a timeout, a failed reopen, ...), not an implementation detail. If the demo depends on timing, make it robust (retry loop with a time budget) and say how often it fails.

DELIVERABLES, in /tmp/wt_{wid}/SEED_OUT/ :
  - patch.diff : `git diff -- src locustdb-serialization locustdb-compression-utils` (source change only, NOT the demo test), must apply with `git apply` to a clean checkout of HEAD
  - seed_demo.rs : copy of tests/seed_demo.rs
  - meta.json : {{"property": "{prop}", "summary": "<what the change does and why it breaks the property>", "needs": "<what exactly is needed for the breakage to manifest>", "files": [...], "demo_cmd": "cargo test --offline --test seed_demo", "suite_result": "<what you ran and the pass counts with the change>", "demo_with_change": "<result>", "demo_without_change": "<result>"}}

Leave the worktree with your change applied and tests/seed_demo.rs present. In your final message, report briefly: the change, what it needs, and the verification results (suite with change; demo with/without). If after serious effort you cannot find a change that passes the whole existing suite, say so honestly rather than delivering something that fails tests.""")
