#!/usr/bin/env python3
"""tools/seed_meta.py <id> <note> : fold confirm.log + detect_*.log summaries into seeded/<id>/meta.json"""
import json, os, re, sys, glob
sid, note = sys.argv[1], (sys.argv[2] if len(sys.argv) > 2 else "")
d = f"/verif/seeded/{sid}"
meta = json.load(open(f"{d}/meta.json"))
checks = {}
for f in sorted(glob.glob(f"{d}/detect_*.log")):
    prop = re.search(r"detect_(\w+)\.log", f).group(1)
    t = open(f).read()
    checks[prop] = {"violations": t.count("\nVIOLATION "), "known_finding_lines": t.count("\nKNOWN-FINDING"),
                    "exit": (re.findall(r"exit=(\d+)", t) or ["?"])[-1],
                    "signatures": sorted(set(re.findall(r"signature: (.*)", t)))[:12]}
c = open(f"{d}/confirm.log").read() if os.path.exists(f"{d}/confirm.log") else ""
meta["verified_by_framework_author"] = {
    "confirm_log": "confirm.log: demo_with_change_exit=%s demo_without_change_exit=%s; suite with change: %s" % (
        (re.findall(r"demo_with_change_exit=(\d+)", c) or ["?"])[0], (re.findall(r"demo_without_change_exit=(\d+)", c) or ["?"])[0],
        "; ".join(re.findall(r"test result: (?:ok|FAILED)\. (?:5|13|106) passed[^;]*; \d+ failed", c.split("existing suite WITH change")[-1]))),
    "checks_run_against_worktree_with_patch": checks,
    "procedure": "tools/confirm_seed.sh (scratch worktree) then tools/detect_seed.sh: LVERIF_REPO=<worktree with patch> ./check <P> --tier quick (shadow harness; /repo untouched)",
    "note": note,
}
json.dump(meta, open(f"{d}/meta.json", "w"), indent=1)
print(sid, {k: (v["violations"], v["exit"]) for k, v in checks.items()})
