#!/bin/bash
# usage: tools/process_seed.sh <id> <PROP> [<PROP>...] : confirm the seed in its worktree, then run the quick checks against it
id=$1; shift
/verif/tools/confirm_seed.sh $id $1
/verif/tools/detect_seed.sh $id "$@"
python3 /verif/tools/seed_meta.py $id ""
