//! Shard context: case numbering, sharding, running cases under the guard, writing the shard report.
use std::path::PathBuf;
use std::time::{Duration, Instant};

use serde_json::{json, Value as J};

use crate::guard::{self, CaseEnd, OpCell};
use crate::report::{CaseOut, Report};

#[derive(Clone, Copy, Debug, PartialEq, Eq)]
pub enum Tier {
    Quick,
    Thorough,
}

pub struct Ctx {
    pub prop: String,
    pub tier: Tier,
    pub seed: u64,
    pub shard: usize,
    pub nshards: usize,
    pub out: PathBuf,
    pub part: usize,
    pub skip_until: u64,
    pub only_case: Option<String>,
    pub report: Report,
    pub next_case: u64,
    pub started: Instant,
    pub budget: Duration,
    pub watchdog: Duration,
}

impl Ctx {
    pub fn quick(&self) -> bool {
        self.tier == Tier::Quick
    }

    /// `q` in the quick tier, `t` in the thorough tier.
    pub fn pick<T>(&self, q: T, t: T) -> T {
        if self.quick() {
            q
        } else {
            t
        }
    }

    /// Time budget exhausted? Random-fill loops stop generating once this is true (deterministic grids ignore it).
    pub fn out_of_time(&self) -> bool {
        self.started.elapsed() > self.budget
    }

    /// Assigns the next case number and says whether this shard runs it.
    pub fn take(&mut self, id: &str) -> bool {
        let idx = self.next_case;
        self.next_case += 1;
        if let Some(only) = &self.only_case {
            return only == id;
        }
        idx % self.nshards as u64 == self.shard as u64 && idx >= self.skip_until
    }

    /// Run one case (already selected with `take`).
    pub fn run<F>(&mut self, id: &str, opclass: &str, case_json: J, f: F)
    where
        F: FnOnce(&mut CaseOut, &OpCell) + Send + 'static,
    {
        let idx = self.next_case - 1;
        let mut cj = case_json;
        if let Some(o) = cj.as_object_mut() {
            o.insert("case_id".into(), json!(id));
            o.insert("property".into(), json!(self.prop));
            o.insert("seed".into(), json!(self.seed));
        }
        if std::env::var_os("LVERIF_CHECKPOINT").is_some() {
            // sanitizer lane: a report ends the process at once, so what was observed so far and the case in flight are
            // written down before the case starts
            self.write_checkpoint(idx, &cj);
        }
        if cfg!(miri) {
            // the interpreter lane runs a case inline (no watchdog thread polling /proc); the driver's wall-clock limit bounds it
            let op = OpCell::default();
            let mut out = CaseOut::default();
            let res = std::panic::catch_unwind(std::panic::AssertUnwindSafe(|| f(&mut out, &op)));
            for p in guard::take_panics() {
                if p.in_repo() {
                    out.failures.push(crate::report::Failure::new("panic", &format!("panic@{}", p.site()), &format!("{}|{}", p.norm_msg(), opclass), format!("thread={} at {} msg={}", p.thread, p.site_line(), p.msg.lines().next().unwrap_or("")), cj.clone()));
                } else if res.is_err() || !p.file.contains("/harness/") {
                    out.inconclusive.push(format!("panic outside the code under test at {}:{}: {}", p.file, p.line, p.msg.lines().next().unwrap_or("")));
                }
            }
            self.report.merge(out);
            self.write_report(None);
            return;
        }
        match guard::run_case(id, opclass, self.watchdog, cj, f) {
            CaseEnd::Done(out) => self.report.merge(out),
            CaseEnd::Hung(out) => {
                self.report.merge(out);
                self.report.notes.push(format!("case {} ({}) did not finish; shard restarts after it", idx, id));
                self.write_report(Some(idx));
                // a leaked case thread may hold database threads: leave the process
                std::process::exit(3);
            }
        }
    }

    fn write_checkpoint(&self, idx: u64, case: &J) {
        let mut j = self.report.to_json();
        j["property"] = json!(self.prop);
        j["shard"] = json!(self.shard);
        j["part"] = json!(self.part);
        j["aborted_at"] = json!(idx);
        j["in_flight"] = case.clone();
        j["wall_s"] = json!(self.started.elapsed().as_secs_f64());
        let path = self.out.join(format!("shard_{}.part_{}.json", self.shard, self.part));
        let tmp = self.out.join(format!("shard_{}.part_{}.json.tmp", self.shard, self.part));
        if std::fs::write(&tmp, serde_json::to_vec(&j).unwrap()).is_ok() {
            let _ = std::fs::rename(&tmp, &path);
        }
    }

    pub fn write_report(&self, aborted_at: Option<u64>) {
        let mut j = self.report.to_json();
        j["property"] = json!(self.prop);
        j["shard"] = json!(self.shard);
        j["part"] = json!(self.part);
        j["aborted_at"] = json!(aborted_at);
        j["wall_s"] = json!(self.started.elapsed().as_secs_f64());
        let path = self.out.join(format!("shard_{}.part_{}.json", self.shard, self.part));
        let tmp = self.out.join(format!("shard_{}.part_{}.json.tmp", self.shard, self.part));
        std::fs::write(&tmp, serde_json::to_vec(&j).unwrap()).expect("write report");
        std::fs::rename(&tmp, &path).expect("rename report");
    }
}
