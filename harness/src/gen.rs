//! Seeded generators for the value classes, null patterns and lengths named in the properties.
use crate::model::{F64_NULL_BITS, I64_NULL, V};
use crate::rng::Rng;

pub const INT_CLASSES: &[&str] = &[
    "u8", "u8_off", "u8_neg", "u16", "u16_off", "u32", "u32_off", "i64_full", "i64_min", "const", "mono", "mono_descent",
    "mono_big", "overflow_steps", "small_mixed_sign",
];
pub const FLOAT_CLASSES: &[&str] = &[
    "f32_exact", "f64_noise", "neg_zero", "subnormal", "inf", "nan_payload", "int_valued", "repeated", "mixed_special",
];
pub const STR_CLASSES: &[&str] = &[
    "empty", "short_lowcard", "short_highcard", "len254", "len255", "len256", "len511", "unicode", "lhex_long", "uhex_long",
    "lhex_short", "hex_odd", "hex_mixedcase", "numerals", "dict_gt255", "with_empty", "single_value",
    // high-cardinality (packed, not dictionary) strings whose byte length sits on the length-prefix boundaries
    "len254_hi", "len255_hi", "len510_hi", "len_mixed_boundaries",
];
pub const NULL_PATTERNS: &[&str] = &["none", "all", "first", "last", "alternating", "p10", "p50", "p90", "all_but_first", "all_but_last"];
pub const LENGTHS: &[usize] = &[1, 2, 7, 8, 9, 15, 16, 17, 63, 64, 65, 127, 128, 129, 1000];

fn safe_int(x: i64) -> i64 {
    if x == I64_NULL {
        I64_NULL - 1
    } else {
        x
    }
}

pub fn gen_ints(class: &str, n: usize, rng: &mut Rng) -> Vec<i64> {
    let mut out = Vec::with_capacity(n);
    match class {
        "u8" => {
            for i in 0..n {
                out.push(match i {
                    0 => 0,
                    1 => 255,
                    _ => rng.range(0, 255),
                })
            }
        }
        "u8_off" => {
            let base = *rng.pick(&[256i64, 1000, 1 << 33, -300]);
            for i in 0..n {
                out.push(base + match i { 0 => 0, 1 => 255, _ => rng.range(0, 255) })
            }
        }
        "u8_neg" => {
            for i in 0..n {
                out.push(match i { 0 => -100, 1 => 155, _ => rng.range(-100, 155) })
            }
        }
        "u16" => {
            for i in 0..n {
                out.push(match i { 0 => 0, 1 => 65535, 2 => 256, _ => rng.range(0, 65535) })
            }
        }
        "u16_off" => {
            let base = *rng.pick(&[100_000i64, -40_000, 1 << 40]);
            for i in 0..n {
                out.push(base + match i { 0 => 0, 1 => 65535, _ => rng.range(0, 65535) })
            }
        }
        "u32" => {
            for i in 0..n {
                out.push(match i { 0 => 0, 1 => u32::MAX as i64, 2 => 65536, _ => rng.range(0, u32::MAX as i64) })
            }
        }
        "u32_off" => {
            let base = *rng.pick(&[1i64 << 40, -(1i64 << 31), -(1i64 << 45)]);
            for i in 0..n {
                out.push(base + match i { 0 => 0, 1 => u32::MAX as i64, _ => rng.range(0, u32::MAX as i64) })
            }
        }
        "i64_full" => {
            let edges = [i64::MAX - 1, -(1i64 << 62), 1i64 << 62, (1i64 << 53) + 1, -1, 0, 1, i64::MIN + 1];
            for i in 0..n {
                out.push(if i < edges.len() { edges[i] } else { safe_int(rng.next_u64() as i64) })
            }
        }
        "i64_min" => {
            let edges = [i64::MIN, i64::MAX - 1, 0, -1];
            for i in 0..n {
                out.push(if i < edges.len() { edges[i] } else { safe_int(rng.next_u64() as i64) })
            }
        }
        "const" => {
            let c = *rng.pick(&[0i64, 7, -7, 300, 1 << 40, i64::MAX - 1, i64::MIN]);
            out.resize(n, c);
        }
        "mono" => {
            let mut x = *rng.pick(&[0i64, 1_600_000_000, -50]);
            for _ in 0..n {
                x += rng.range(1, 20);
                out.push(x);
            }
        }
        "mono_descent" => {
            let mut x = 1000i64;
            let at = rng.below(n.max(1));
            for i in 0..n {
                if i == at && i > 0 {
                    x -= 500;
                } else {
                    x += rng.range(1, 300);
                }
                out.push(x);
            }
        }
        "mono_big" => {
            let mut x = -(1i64 << 61);
            for _ in 0..n {
                x += rng.range(1, 1 << 50);
                out.push(safe_int(x));
            }
        }
        "overflow_steps" => {
            // consecutive differences overflow i64 -> delta coding must be disabled
            for i in 0..n {
                out.push(if i % 2 == 0 { i64::MIN + 1 + i as i64 } else { i64::MAX - 1 - i as i64 });
            }
        }
        "small_mixed_sign" => {
            for i in 0..n {
                out.push(match i { 0 => -1, 1 => 1, _ => rng.range(-3, 3) })
            }
        }
        _ => panic!("unknown int class {}", class),
    }
    out
}

fn safe_f(x: f64) -> f64 {
    if x.to_bits() == F64_NULL_BITS {
        f64::from_bits(0x7ff8_0000_0000_0001)
    } else {
        x
    }
}

pub fn gen_floats(class: &str, n: usize, rng: &mut Rng) -> Vec<f64> {
    let mut out = Vec::with_capacity(n);
    for i in 0..n {
        let x = match class {
            "f32_exact" => (rng.range(-100_000, 100_000) as f32 / 8.0) as f64,
            "f64_noise" => f64::from_bits(rng.next_u64() & 0x7fef_ffff_ffff_ffff | ((rng.next_u64() & 1) << 63)),
            "neg_zero" => *rng.pick(&[-0.0f64, 0.0, 1.5, -1.5]),
            "subnormal" => f64::from_bits(rng.next_u64() & 0x000f_ffff_ffff_ffff | ((i as u64 & 1) << 63)),
            "inf" => *rng.pick(&[f64::INFINITY, f64::NEG_INFINITY, 1.0, f64::MAX, f64::MIN, f64::MIN_POSITIVE]),
            "nan_payload" => match i % 4 {
                0 => f64::NAN,
                1 => f64::from_bits(0x7ff8_0000_0000_1234),
                2 => f64::from_bits(0xfff8_0000_0000_0001),
                _ => rng.range(-5, 5) as f64,
            },
            "int_valued" => rng.range(-1_000_000, 1_000_000) as f64,
            "repeated" => *rng.pick(&[1.25f64, 1.25, 1.25, 3.5]),
            "mixed_special" => *rng.pick(&[0.1f64, 1e300, -1e-300, 3.0, f64::EPSILON, 1e15 + 0.5, 123456789.123456789]),
            _ => panic!("unknown float class {}", class),
        };
        out.push(safe_f(x));
    }
    if class == "neg_zero" && n > 0 {
        out[0] = -0.0;
    }
    out
}

fn rand_hex(rng: &mut Rng, len: usize, upper: bool) -> String {
    let digits = if upper { b"0123456789ABCDEF" } else { b"0123456789abcdef" };
    (0..len).map(|_| digits[rng.below(16)] as char).collect()
}

fn rand_word(rng: &mut Rng, len: usize) -> String {
    let alpha = b"abcdefghijklmnopqrstuvwxyzABCDEFGHIJKLMNOPQRSTUVWXYZ0123456789 _-.,%/'\"";
    (0..len).map(|_| alpha[rng.below(alpha.len())] as char).collect()
}

pub fn gen_strs(class: &str, n: usize, rng: &mut Rng) -> Vec<String> {
    let mut out = Vec::with_capacity(n);
    let uni = ["é", "ß", "日本語", "🙂", "a\u{0301}", "Ω", "ключ", "\u{200b}", "naïve"];
    for i in 0..n {
        let s = match class {
            "empty" => String::new(),
            "short_lowcard" => format!("v{}", rng.below(3)),
            "short_highcard" => format!("k{}_{}", i, rand_word(rng, 3)),
            "len254" => format!("{}{}", i % 7, "x".repeat(253)),
            "len255" => format!("{}{}", i % 7, "y".repeat(254)),
            "len256" => format!("{}{}", i, "z".repeat(256 - i.to_string().len())),
            "len511" => format!("{}{}", i % 3, "w".repeat(510)),
            "len254_hi" => format!("{:05}{}", i, "a".repeat(249)),
            "len255_hi" => format!("{:05}{}", i, "b".repeat(250)),
            "len510_hi" => format!("{:05}{}", i, "c".repeat(505)),
            "len_mixed_boundaries" => {
                let l = *rng.pick(&[0usize, 1, 253, 254, 255, 256, 509, 510, 511, 765]);
                let p = format!("{:04}", i);
                if l <= p.len() { p[..l].to_string() } else { format!("{}{}", p, "d".repeat(l - p.len())) }
            }
            "unicode" => format!("{}{}{}", rng.pick(&uni), rng.pick(&uni), if rng.chance(0.5) { i.to_string() } else { String::new() }),
            "lhex_long" => { let l = 2 * (3 + rng.below(6)); rand_hex(rng, l, false) }
            "uhex_long" => { let l = 2 * (3 + rng.below(6)); rand_hex(rng, l, true) }
            "lhex_short" => { let l = 2 * rng.below(3); rand_hex(rng, l, false) }
            "hex_odd" => rand_hex(rng, 7, false),
            "hex_mixedcase" => {
                if i % 2 == 0 {
                    rand_hex(rng, 8, false)
                } else {
                    rand_hex(rng, 8, true)
                }
            }
            "numerals" => format!("{}", rng.range(-1000, 1000)),
            "dict_gt255" => format!("d{:03}", rng.below(300)),
            "with_empty" => {
                if rng.chance(0.3) {
                    String::new()
                } else {
                    format!("s{}", rng.below(4))
                }
            }
            "single_value" => "only".to_string(),
            _ => panic!("unknown str class {}", class),
        };
        out.push(s);
    }
    out
}

/// true = present
pub fn null_pattern(pat: &str, n: usize, rng: &mut Rng) -> Vec<bool> {
    (0..n)
        .map(|i| match pat {
            "none" => true,
            "all" => false,
            "first" => i != 0,
            "last" => i + 1 != n,
            "alternating" => i % 2 == 0,
            "p10" => !rng.chance(0.1),
            "p50" => !rng.chance(0.5),
            "p90" => !rng.chance(0.9),
            "all_but_first" => i == 0,
            "all_but_last" => i + 1 == n,
            _ => panic!("unknown null pattern {}", pat),
        })
        .collect()
}

pub fn apply_nulls(vals: Vec<V>, present: &[bool]) -> Vec<V> {
    vals.into_iter().zip(present.iter()).map(|(v, p)| if *p { v } else { V::Null }).collect()
}

pub fn gen_column(kind: &str, class: &str, n: usize, rng: &mut Rng) -> Vec<V> {
    match kind {
        "int" => gen_ints(class, n, rng).into_iter().map(V::Int).collect(),
        "float" => gen_floats(class, n, rng).into_iter().map(V::Float).collect(),
        "str" => gen_strs(class, n, rng).into_iter().map(V::Str).collect(),
        _ => panic!("unknown kind"),
    }
}

pub fn all_classes() -> Vec<(&'static str, &'static str)> {
    let mut v = Vec::new();
    for c in INT_CLASSES {
        v.push(("int", *c));
    }
    for c in FLOAT_CLASSES {
        v.push(("float", *c));
    }
    for c in STR_CLASSES {
        v.push(("str", *c));
    }
    v
}
