//! Reference semantics of the supported SQL fragment (Appendix A of DESIGN.md): a direct row-at-a-time
//! interpreter over the logical model. It is the oracle, it shares no code with the engine.
use std::cmp::Ordering;
use std::collections::BTreeMap;

use crate::model::{LTable, V};

#[derive(Clone, Copy, Debug, PartialEq, Eq, Hash)]
pub enum Op {
    Add,
    Sub,
    Mul,
    Div,
    Mod,
    Eq,
    Ne,
    Lt,
    Le,
    Gt,
    Ge,
    And,
    Or,
}

impl Op {
    pub fn sql(&self) -> &'static str {
        match self {
            Op::Add => "+",
            Op::Sub => "-",
            Op::Mul => "*",
            Op::Div => "/",
            Op::Mod => "%",
            Op::Eq => "=",
            Op::Ne => "<>",
            Op::Lt => "<",
            Op::Le => "<=",
            Op::Gt => ">",
            Op::Ge => ">=",
            Op::And => "AND",
            Op::Or => "OR",
        }
    }
    pub fn is_cmp(&self) -> bool {
        matches!(self, Op::Eq | Op::Ne | Op::Lt | Op::Le | Op::Gt | Op::Ge)
    }
    pub fn is_arith(&self) -> bool {
        matches!(self, Op::Add | Op::Sub | Op::Mul | Op::Div | Op::Mod)
    }
}

#[derive(Clone, Copy, Debug, PartialEq, Eq, Hash, PartialOrd, Ord)]
pub enum AggF {
    Count,
    Sum,
    Min,
    Max,
    Avg,
}

impl AggF {
    pub fn sql(&self) -> &'static str {
        match self {
            AggF::Count => "COUNT",
            AggF::Sum => "SUM",
            AggF::Min => "MIN",
            AggF::Max => "MAX",
            AggF::Avg => "AVG",
        }
    }
}

#[derive(Clone, Debug, PartialEq)]
pub enum E {
    Col(String),
    Int(i64),
    Flt(f64),
    Str(String),
    Null,
    Bin(Op, Box<E>, Box<E>),
    Not(Box<E>),
    Neg(Box<E>),
    IsNull(Box<E>),
    IsNotNull(Box<E>),
    Like(Box<E>, String, bool),
    Regex(Box<E>, String),
    Length(Box<E>),
    Agg(AggF, Box<E>),
}

pub fn bin(op: Op, a: E, b: E) -> E {
    E::Bin(op, Box::new(a), Box::new(b))
}
pub fn col(name: &str) -> E {
    E::Col(name.to_string())
}

fn sql_str(s: &str) -> String {
    format!("'{}'", s.replace('\'', "''"))
}

pub fn sql_ident(s: &str) -> String {
    format!("\"{}\"", s)
}

pub fn fmt_f64(f: f64) -> String {
    // always contains '.' or 'e' so the engine parses it as a float
    let s = format!("{:?}", f);
    s
}

impl E {
    pub fn sql(&self) -> String {
        match self {
            E::Col(c) => sql_ident(c),
            E::Int(i) => {
                if *i < 0 {
                    format!("({})", i)
                } else {
                    format!("{}", i)
                }
            }
            E::Flt(f) => {
                if *f < 0.0 || (f.to_bits() >> 63) == 1 {
                    format!("({})", fmt_f64(*f))
                } else {
                    fmt_f64(*f)
                }
            }
            E::Str(s) => sql_str(s),
            E::Null => "NULL".into(),
            E::Bin(op, a, b) => format!("({} {} {})", a.sql(), op.sql(), b.sql()),
            E::Not(a) => format!("(NOT {})", a.sql()),
            E::Neg(a) => format!("(-{})", a.sql()),
            E::IsNull(a) => format!("({} IS NULL)", a.sql()),
            E::IsNotNull(a) => format!("({} IS NOT NULL)", a.sql()),
            E::Like(a, p, neg) => format!("({} {}LIKE {})", a.sql(), if *neg { "NOT " } else { "" }, sql_str(p)),
            E::Regex(a, p) => format!("regex({}, {})", a.sql(), sql_str(p)),
            E::Length(a) => format!("length({})", a.sql()),
            E::Agg(f, a) => format!("{}({})", f.sql(), a.sql()),
        }
    }

    pub fn has_agg(&self) -> bool {
        match self {
            E::Agg(..) => true,
            E::Bin(_, a, b) => a.has_agg() || b.has_agg(),
            E::Not(a) | E::Neg(a) | E::IsNull(a) | E::IsNotNull(a) | E::Length(a) => a.has_agg(),
            E::Like(a, _, _) | E::Regex(a, _) => a.has_agg(),
            _ => false,
        }
    }

    pub fn cols(&self, out: &mut Vec<String>) {
        match self {
            E::Col(c) => {
                if !out.contains(c) {
                    out.push(c.clone())
                }
            }
            E::Bin(_, a, b) => {
                a.cols(out);
                b.cols(out)
            }
            E::Not(a) | E::Neg(a) | E::IsNull(a) | E::IsNotNull(a) | E::Length(a) | E::Agg(_, a) => a.cols(out),
            E::Like(a, _, _) | E::Regex(a, _) => a.cols(out),
            _ => {}
        }
    }

    /// Statement shape: the expression with column references replaced by a type tag and constants by their type.
    pub fn shape(&self, ty: &dyn Fn(&str) -> &'static str) -> String {
        match self {
            E::Col(c) => format!("col:{}", ty(c)),
            E::Int(_) => "int".into(),
            E::Flt(_) => "flt".into(),
            E::Str(_) => "str".into(),
            E::Null => "null".into(),
            E::Bin(op, a, b) => format!("({} {} {})", a.shape(ty), op.sql(), b.shape(ty)),
            E::Not(a) => format!("not({})", a.shape(ty)),
            E::Neg(a) => format!("neg({})", a.shape(ty)),
            E::IsNull(a) => format!("isnull({})", a.shape(ty)),
            E::IsNotNull(a) => format!("isnotnull({})", a.shape(ty)),
            E::Like(a, _, n) => format!("{}like({})", if *n { "not" } else { "" }, a.shape(ty)),
            E::Regex(a, _) => format!("regex({})", a.shape(ty)),
            E::Length(a) => format!("length({})", a.shape(ty)),
            E::Agg(f, a) => format!("{}({})", f.sql(), a.shape(ty)),
        }
    }
}

#[derive(Clone, Debug)]
pub struct Q {
    pub select: Vec<(E, Option<String>)>,
    pub star: bool,
    pub table: String,
    pub filter: Option<E>,
    pub order_by: Vec<(E, bool)>,
    pub limit: Option<u64>,
    pub offset: Option<u64>,
}

impl Q {
    pub fn new(table: &str) -> Q {
        Q { select: vec![], star: false, table: table.to_string(), filter: None, order_by: vec![], limit: None, offset: None }
    }
    pub fn sql(&self) -> String {
        let mut s = String::from("SELECT ");
        if self.star {
            s.push('*');
        } else {
            s.push_str(
                &self
                    .select
                    .iter()
                    .map(|(e, a)| match a {
                        Some(a) => format!("{} AS {}", e.sql(), sql_ident(a)),
                        None => e.sql(),
                    })
                    .collect::<Vec<_>>()
                    .join(", "),
            );
        }
        s.push_str(&format!(" FROM {}", sql_ident(&self.table)));
        if let Some(f) = &self.filter {
            s.push_str(&format!(" WHERE {}", f.sql()));
        }
        if !self.order_by.is_empty() {
            s.push_str(" ORDER BY ");
            s.push_str(
                &self.order_by.iter().map(|(e, d)| format!("{}{}", e.sql(), if *d { " DESC" } else { " ASC" })).collect::<Vec<_>>().join(", "),
            );
        }
        if let Some(l) = self.limit {
            s.push_str(&format!(" LIMIT {}", l));
        }
        if let Some(o) = self.offset {
            s.push_str(&format!(" OFFSET {}", o));
        }
        s
    }
    pub fn is_agg(&self) -> bool {
        self.select.iter().any(|(e, _)| e.has_agg())
    }
}

/// Why the reference refuses to give a value.
#[derive(Clone, Debug, PartialEq)]
pub enum RefErr {
    /// some row leaves i64 / divides by zero: engine must fail with Overflow (T-OVF)
    Overflow,
    /// ill-typed under the reference typing: any engine error is fine, and no claim is made about an Ok
    IllTyped(String),
}

/// Value of an expression on one row: a cell value or a three-valued boolean.
#[derive(Clone, Debug, PartialEq)]
pub enum X {
    V(V),
    B(Option<bool>),
}

impl X {
    pub fn to_v(&self) -> V {
        match self {
            X::V(v) => v.clone(),
            X::B(None) => V::Null,
            X::B(Some(b)) => V::Int(*b as i64),
        }
    }
    pub fn truth(&self) -> Result<Option<bool>, RefErr> {
        match self {
            X::B(b) => Ok(*b),
            X::V(V::Null) => Ok(None),
            X::V(V::Int(i)) => Ok(Some(*i != 0)),
            X::V(v) => Err(RefErr::IllTyped(format!("non-boolean in boolean position: {:?}", v))),
        }
    }
}

/// Outcome of comparing an int and a float under T-INTFLOAT: both the exact answer and the answer after
/// `int as f64` are returned; they differ only beyond 2^53.
pub fn cmp_vals(a: &V, b: &V) -> Result<Option<(Ordering, Ordering)>, RefErr> {
    match (a, b) {
        (V::Null, _) | (_, V::Null) => Ok(None),
        (V::Int(x), V::Int(y)) => Ok(Some((x.cmp(y), x.cmp(y)))),
        (V::Float(x), V::Float(y)) => match x.partial_cmp(y) {
            Some(o) => Ok(Some((o, o))),
            None => Err(RefErr::IllTyped("NaN comparison".into())),
        },
        (V::Int(x), V::Float(y)) => {
            let lossy = (*x as f64).partial_cmp(y).ok_or(RefErr::IllTyped("NaN comparison".into()))?;
            Ok(Some((exact_int_float(*x, *y), lossy)))
        }
        (V::Float(x), V::Int(y)) => {
            let lossy = x.partial_cmp(&(*y as f64)).ok_or(RefErr::IllTyped("NaN comparison".into()))?;
            Ok(Some((exact_int_float(*y, *x).reverse(), lossy)))
        }
        (V::Str(x), V::Str(y)) => Ok(Some((x.as_bytes().cmp(y.as_bytes()), x.as_bytes().cmp(y.as_bytes())))),
        _ => Err(RefErr::IllTyped(format!("comparison of {:?} with {:?}", a, b))),
    }
}

fn exact_int_float(i: i64, f: f64) -> Ordering {
    if f.is_nan() {
        return Ordering::Equal;
    }
    if f >= 9.3e18 {
        return Ordering::Less;
    }
    if f <= -9.3e18 {
        return Ordering::Greater;
    }
    let fl = f.floor();
    let fi = fl as i128;
    match (i as i128).cmp(&fi) {
        Ordering::Equal => {
            if f > fl {
                Ordering::Less
            } else {
                Ordering::Equal
            }
        }
        o => o,
    }
}

fn apply_cmp(op: Op, o: Ordering) -> bool {
    match op {
        Op::Eq => o == Ordering::Equal,
        Op::Ne => o != Ordering::Equal,
        Op::Lt => o == Ordering::Less,
        Op::Le => o != Ordering::Greater,
        Op::Gt => o == Ordering::Greater,
        Op::Ge => o != Ordering::Less,
        _ => unreachable!(),
    }
}

pub struct EvalCtx<'a> {
    pub table: &'a LTable,
    /// diagnosis only: AND/OR yield UNKNOWN as soon as one operand is UNKNOWN (not Kleene logic)
    pub strict_null_logic: bool,
    /// set when an int/float comparison was decided differently by the exact and the lossy rule
    pub ambiguous: std::cell::Cell<bool>,
}

pub fn like_match(s: &str, pat: &str) -> bool {
    // % = any sequence, _ = exactly one Unicode scalar; whole-string match
    let s: Vec<char> = s.chars().collect();
    let p: Vec<char> = pat.chars().collect();
    fn rec(s: &[char], p: &[char]) -> bool {
        if p.is_empty() {
            return s.is_empty();
        }
        match p[0] {
            '%' => (0..=s.len()).any(|k| rec(&s[k..], &p[1..])),
            '_' => !s.is_empty() && rec(&s[1..], &p[1..]),
            c => !s.is_empty() && s[0] == c && rec(&s[1..], &p[1..]),
        }
    }
    rec(&s, &p)
}

impl<'a> EvalCtx<'a> {
    pub fn new(table: &'a LTable) -> EvalCtx<'a> {
        EvalCtx { table, strict_null_logic: false, ambiguous: std::cell::Cell::new(false) }
    }

    pub fn eval(&self, e: &E, row: usize) -> Result<X, RefErr> {
        Ok(match e {
            E::Col(c) => X::V(self.table.cell(c, row)),
            E::Int(i) => X::V(V::Int(*i)),
            E::Flt(f) => X::V(V::Float(*f)),
            E::Str(s) => X::V(V::Str(s.clone())),
            E::Null => X::V(V::Null),
            E::Neg(a) => match self.eval(a, row)?.to_v() {
                V::Null => X::V(V::Null),
                V::Int(i) => X::V(V::Int(i.checked_neg().ok_or(RefErr::Overflow)?)),
                V::Float(f) => X::V(V::Float(-f)),
                v => return Err(RefErr::IllTyped(format!("negation of {:?}", v))),
            },
            E::Not(a) => X::B(self.eval(a, row)?.truth()?.map(|b| !b)),
            E::IsNull(a) => X::B(Some(self.eval(a, row)?.to_v().is_null())),
            E::IsNotNull(a) => X::B(Some(!self.eval(a, row)?.to_v().is_null())),
            E::Like(a, p, neg) => match self.eval(a, row)?.to_v() {
                V::Null => X::B(None),
                V::Str(s) => X::B(Some(like_match(&s, p) != *neg)),
                v => return Err(RefErr::IllTyped(format!("LIKE on {:?}", v))),
            },
            E::Regex(a, p) => match self.eval(a, row)?.to_v() {
                V::Null => X::B(None),
                V::Str(s) => {
                    let re = regex::Regex::new(p).map_err(|e| RefErr::IllTyped(format!("bad regex: {}", e)))?;
                    X::B(Some(re.is_match(&s)))
                }
                v => return Err(RefErr::IllTyped(format!("regex on {:?}", v))),
            },
            E::Length(a) => match self.eval(a, row)?.to_v() {
                V::Null => X::V(V::Null),
                V::Str(s) => X::V(V::Int(s.len() as i64)),
                v => return Err(RefErr::IllTyped(format!("length of {:?}", v))),
            },
            E::Agg(..) => return Err(RefErr::IllTyped("aggregate in row context".into())),
            E::Bin(op, a, b) => {
                if *op == Op::And || *op == Op::Or {
                    let x = self.eval(a, row)?.truth()?;
                    let y = self.eval(b, row)?.truth()?;
                    if self.strict_null_logic && (x.is_none() || y.is_none()) {
                        return Ok(X::B(None));
                    }
                    return Ok(X::B(match (op, x, y) {
                        (Op::And, Some(false), _) | (Op::And, _, Some(false)) => Some(false),
                        (Op::And, Some(true), Some(true)) => Some(true),
                        (Op::And, _, _) => None,
                        (Op::Or, Some(true), _) | (Op::Or, _, Some(true)) => Some(true),
                        (Op::Or, Some(false), Some(false)) => Some(false),
                        _ => None,
                    }));
                }
                let x = self.eval(a, row)?.to_v();
                let y = self.eval(b, row)?.to_v();
                if op.is_cmp() {
                    return Ok(X::B(match cmp_vals(&x, &y)? {
                        None => None,
                        Some((exact, lossy)) => {
                            if apply_cmp(*op, exact) != apply_cmp(*op, lossy) {
                                self.ambiguous.set(true);
                            }
                            Some(apply_cmp(*op, lossy))
                        }
                    }));
                }
                X::V(arith(*op, &x, &y)?)
            }
        })
    }
}

pub fn arith(op: Op, x: &V, y: &V) -> Result<V, RefErr> {
    Ok(match (x, y) {
        (V::Str(_), _) | (_, V::Str(_)) => return Err(RefErr::IllTyped("arithmetic on string".into())),
        (V::Null, _) | (_, V::Null) => V::Null,
        (V::Int(a), V::Int(b)) => {
            let (a, b) = (*a as i128, *b as i128);
            let r = match op {
                Op::Add => a + b,
                Op::Sub => a - b,
                Op::Mul => a * b,
                Op::Div => {
                    if b == 0 {
                        return Err(RefErr::Overflow);
                    }
                    a / b
                }
                Op::Mod => {
                    if b == 0 {
                        return Err(RefErr::Overflow);
                    }
                    a % b
                }
                _ => unreachable!(),
            };
            if r < i64::MIN as i128 || r > i64::MAX as i128 {
                return Err(RefErr::Overflow);
            }
            V::Int(r as i64)
        }
        (a, b) => {
            let fa = match a {
                V::Int(i) => *i as f64,
                V::Float(f) => *f,
                _ => unreachable!(),
            };
            let fb = match b {
                V::Int(i) => *i as f64,
                V::Float(f) => *f,
                _ => unreachable!(),
            };
            V::Float(match op {
                Op::Add => fa + fb,
                Op::Sub => fa - fb,
                Op::Mul => fa * fb,
                Op::Div => fa / fb,
                Op::Mod => fa % fb,
                _ => unreachable!(),
            })
        }
    })
}

/// Rows (indices) for which the WHERE expression is TRUE.
pub fn ref_filter(table: &LTable, filter: Option<&E>, ctx: &EvalCtx) -> Result<Vec<usize>, RefErr> {
    let mut out = Vec::new();
    for r in 0..table.len {
        match filter {
            None => out.push(r),
            Some(f) => {
                if ctx.eval(f, r)?.truth()? == Some(true) {
                    out.push(r)
                }
            }
        }
    }
    Ok(out)
}

#[derive(Clone, Debug)]
pub struct AggState {
    pub count: i64,
    pub sum_i: i128,
    pub sum_f: f64,
    pub abs_f: f64,
    pub any_float: bool,
    pub min: Option<V>,
    pub max: Option<V>,
    /// i64 overflow of a running sum in *some* order cannot be excluded (prefix sums leave i64)
    pub sum_may_overflow: bool,
    run_pos: i128,
    run_neg: i128,
}

impl Default for AggState {
    fn default() -> Self {
        AggState { count: 0, sum_i: 0, sum_f: 0.0, abs_f: 0.0, any_float: false, min: None, max: None, sum_may_overflow: false, run_pos: 0, run_neg: 0 }
    }
}

impl AggState {
    pub fn push(&mut self, v: &V) -> Result<(), RefErr> {
        match v {
            V::Null => return Ok(()),
            V::Int(i) => {
                self.sum_i += *i as i128;
                self.sum_f += *i as f64;
                self.abs_f += (*i as f64).abs();
                if *i >= 0 {
                    self.run_pos += *i as i128
                } else {
                    self.run_neg += *i as i128
                }
            }
            V::Float(f) => {
                self.any_float = true;
                self.sum_f += *f;
                self.abs_f += f.abs();
            }
            V::Str(_) => return Err(RefErr::IllTyped("aggregate over string".into())),
        }
        self.count += 1;
        let less = |a: &V, b: &V| cmp_vals(a, b).ok().flatten().map(|o| o.1 == Ordering::Less).unwrap_or(false);
        if self.min.as_ref().map(|m| less(v, m)).unwrap_or(true) {
            self.min = Some(v.clone());
        }
        if self.max.as_ref().map(|m| less(m, v)).unwrap_or(true) {
            self.max = Some(v.clone());
        }
        // some summation order overflows iff the positive or the negative part alone leaves i64
        if self.run_pos > i64::MAX as i128 || self.run_neg < i64::MIN as i128 {
            self.sum_may_overflow = true;
        }
        Ok(())
    }
}

/// Group rows by key expressions; returns groups in first-appearance order.
pub fn ref_group(
    ctx: &EvalCtx,
    rows: &[usize],
    keys: &[E],
    aggs: &[(AggF, E)],
) -> Result<Vec<(Vec<V>, Vec<AggState>)>, RefErr> {
    let mut index: BTreeMap<Vec<KeyV>, usize> = BTreeMap::new();
    let mut groups: Vec<(Vec<V>, Vec<AggState>)> = Vec::new();
    for &r in rows {
        let mut key = Vec::with_capacity(keys.len());
        for k in keys {
            key.push(ctx.eval(k, r)?.to_v());
        }
        let kk: Vec<KeyV> = key.iter().map(KeyV::from).collect();
        let gi = *index.entry(kk).or_insert_with(|| {
            groups.push((key.clone(), vec![AggState::default(); aggs.len()]));
            groups.len() - 1
        });
        for (ai, (_, e)) in aggs.iter().enumerate() {
            let v = ctx.eval(e, r)?.to_v();
            groups[gi].1[ai].push(&v)?;
        }
    }
    Ok(groups)
}

/// Key wrapper with a total order (floats by bits) for grouping maps.
#[derive(Clone, Debug, PartialEq, Eq, PartialOrd, Ord)]
pub enum KeyV {
    Null,
    Int(i64),
    Float(u64),
    Str(String),
}

impl From<&V> for KeyV {
    fn from(v: &V) -> KeyV {
        match v {
            V::Null => KeyV::Null,
            V::Int(i) => KeyV::Int(*i),
            V::Float(f) => KeyV::Float(f.to_bits()),
            V::Str(s) => KeyV::Str(s.clone()),
        }
    }
}

/// ORDER BY comparison of two key values: ascending = value order with NULL after every value;
/// descending = exact reverse.
pub fn order_cmp(a: &V, b: &V, desc: bool) -> Ordering {
    let o = match (a, b) {
        (V::Null, V::Null) => Ordering::Equal,
        (V::Null, _) => Ordering::Greater,
        (_, V::Null) => Ordering::Less,
        _ => cmp_vals(a, b).ok().flatten().map(|o| o.1).unwrap_or(Ordering::Equal),
    };
    if desc {
        o.reverse()
    } else {
        o
    }
}

pub fn order_cmp_keys(a: &[V], b: &[V], desc: &[bool]) -> Ordering {
    for i in 0..a.len() {
        let o = order_cmp(&a[i], &b[i], desc[i]);
        if o != Ordering::Equal {
            return o;
        }
    }
    Ordering::Equal
}

/// Are two result cells equal under the tolerances? `float_tol` is an absolute tolerance (T-FLOATSUM).
pub fn cell_eq(want: &V, got: &V, float_tol: f64) -> bool {
    if want == got {
        return true;
    }
    match (want, got) {
        // T-SENTINEL: the engine's in-band NULL markers may surface instead of NULL
        (V::Null, V::Int(i)) if *i == crate::model::I64_NULL => true,
        (V::Null, V::Float(f)) if f.to_bits() == crate::model::F64_NULL_BITS || f.is_nan() => true,
        (V::Float(a), V::Float(b)) => {
            if a.is_nan() && b.is_nan() {
                return true;
            }
            (a - b).abs() <= float_tol || a == b
        }
        (V::Int(a), V::Float(b)) | (V::Float(b), V::Int(a)) => ((*a as f64) - b).abs() <= float_tol.max(0.0) && float_tol > 0.0 || (*a as f64) == *b,
        _ => false,
    }
}
