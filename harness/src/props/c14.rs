//! C14 — stored files read back as written or are rejected.
use std::borrow::Cow;
use std::collections::BTreeMap;
use std::path::{Path, PathBuf};
use std::sync::Arc;

use locustdb::verif::{
    BlobWriter, ColumnBuffer, DataSource, DecodeArena, FileBlobWriter, MetaStore, PartitionMetadata, PartitionSegment, SubpartitionMetadata,
    VersionedChecksummedBlobWriter, WalSegment,
};
use locustdb_serialization::event_buffer::EventBuffer;
use ordered_float::OrderedFloat;
use serde_json::json;

use crate::ctx::Ctx;
use crate::drive::{copy_dir, event_buffer, fresh_dir, list_files, DbCfg, Via};
use crate::gen;
use crate::guard::OpCell;
use crate::hist::{Op, World};
use crate::model::{Batch, ColRepr, V};
use crate::props::c08::mk_batch;
use crate::props::c09::{run_child, ChildResult};
use crate::report::{CaseOut, Failure};
use crate::rng::Rng;

pub fn build_column(name: &str, vals: &[V]) -> Arc<locustdb::verif::Column> {
    let mut b = ColumnBuffer::default();
    for v in vals {
        match v {
            V::Null => b.push_nulls(1),
            V::Int(i) => b.push_ints([*i], None),
            V::Float(f) => b.push_floats([OrderedFloat(*f)], None),
            V::Str(s) => b.push_strings([s.as_str()], None),
        }
    }
    b.finalize(name)
}

/// Decoded cells of a column through the stand-alone decoder (the one compaction uses).
pub fn decode_column(col: &locustdb::verif::Column) -> Vec<V> {
    use locustdb::verif::Data;
    let arena = DecodeArena::default();
    let d = col.decode(&arena);
    (0..d.len()).map(|i| crate::drive::rawval(&d.get_raw(i))).collect()
}

fn column_fingerprint(c: &locustdb::verif::Column) -> String {
    format!("{:?} || sections={:?}", c, c.data())
}

fn writer() -> VersionedChecksummedBlobWriter {
    VersionedChecksummedBlobWriter::new(Box::new(FileBlobWriter::new()))
}

fn partition_roundtrips(rng: &mut Rng, out: &mut CaseOut, dir: &Path, rounds: usize) {
    partition_roundtrips_with(rng, out, dir, rounds, &[1usize, 8, 9, 65, 300, 1500], 6)
}

/// Interpreter-lane slice of the file round trips (see props/sanlane.rs).
pub fn tiny(rng: &mut Rng, out: &mut CaseOut, dir: &Path) {
    partition_roundtrips_with(rng, out, dir, 1, &[1usize, 9, 33], 3);
    catalogue_roundtrips(rng, out, 2);
    wal_roundtrips(rng, out, 2);
}

fn partition_roundtrips_with(rng: &mut Rng, out: &mut CaseOut, dir: &Path, rounds: usize, row_choices: &[usize], ncols: usize) {
    let classes = gen::all_classes();
    let w = writer();
    for r in 0..rounds {
        let mut cols = Vec::new();
        let rows = *rng.pick(row_choices);
        let mut labels = Vec::new();
        for k in 0..ncols {
            let (kind, class) = *rng.pick(&classes);
            let pat = *rng.pick(gen::NULL_PATTERNS);
            let vals = gen::apply_nulls(gen::gen_column(kind, class, rows, rng), &gen::null_pattern(pat, rows, rng));
            cols.push((format!("col{}_{}", k, class), vals));
            labels.push(format!("{}/{}/{}", kind, class, pat));
        }
        let built: Vec<Arc<locustdb::verif::Column>> = cols.iter().map(|(n, v)| build_column(n, v)).collect();
        let refs: Vec<&locustdb::verif::Column> = built.iter().map(|c| &**c).collect();
        let bytes = PartitionSegment::serialize(&refs);
        let path = dir.join(format!("seg_{}.part", r));
        out.eval(1);
        let case = json!({"rows": rows, "columns": labels});
        if let Err(e) = w.store(&path, &bytes) {
            out.inconclusive.push(format!("store failed: {}", e));
            continue;
        }
        let loaded = match w.load(&path) {
            Ok(b) => b,
            Err(e) => {
                out.fail(Failure::new("file", "valid_file_rejected", "partition", format!("load of a freshly stored partition file failed: {}", e), case));
                continue;
            }
        };
        if loaded != bytes {
            out.fail(Failure::new("file", "payload_changed", "partition", "envelope returned a different payload".into(), case.clone()));
        }
        match PartitionSegment::deserialize(&loaded) {
            Ok(seg) => {
                if seg.columns.len() != built.len() {
                    out.fail(Failure::new("file", "column_count", "partition", format!("{} columns stored, {} read", built.len(), seg.columns.len()), case.clone()));
                    continue;
                }
                for ((orig, back), (name, vals)) in built.iter().zip(seg.columns.iter()).zip(cols.iter()) {
                    out.eval(1);
                    if column_fingerprint(orig) != column_fingerprint(back) {
                        out.fail(Failure::new("file", "column_structure_changed", &orig.codec().signature(false), format!("column {}: name/len/range/codec/sections differ after the round trip:\n  stored {}\n  read   {}", name, crate::qcheck::trunc(&column_fingerprint(orig), 300), crate::qcheck::trunc(&column_fingerprint(back), 300)), case.clone()));
                        continue;
                    }
                    let decoded = decode_column(back);
                    let ct = crate::model::join_type(vals);
                    let same = decoded.len() == vals.len() && vals.iter().zip(decoded.iter()).all(|(a, b)| crate::model::cell_matches(a, b, ct));
                    if !same {
                        out.fail(Failure::new("file", "decoded_values_changed", &orig.codec().signature(false), format!("column {} decodes to different values after the round trip", name), case.clone()));
                    } else {
                        out.distinct(format!("partition|{}|{}", orig.codec().signature(false), back.data().iter().map(|d| format!("{:?}", d.encoding_type())).collect::<Vec<_>>().join(",")));
                        out.set("codec_signatures_roundtripped", orig.codec().signature(false));
                    }
                }
            }
            Err(e) => out.fail(Failure::new("file", "valid_file_rejected", "partition", format!("deserialize failed: {}", e), case)),
        }
        let _ = std::fs::remove_file(&path);
    }
}

fn catalogue_roundtrips(rng: &mut Rng, out: &mut CaseOut, rounds: usize) {
    for _ in 0..rounds {
        let mut ms = MetaStore::default();
        let ntables = rng.below(5);
        let mut expect: BTreeMap<(String, u64), (usize, usize, Vec<(String, String, u64)>)> = BTreeMap::new();
        for t in 0..ntables {
            let tname = rng.pick(&["t", "Tab le", "ünï", "_meta_columns_x", "a/b", "", &"n".repeat(300)]).to_string() + &t.to_string();
            for p in 0..1 + rng.below(4) {
                let nsub = 1 + rng.below(4);
                let mut subs = Vec::new();
                let mut by_last = BTreeMap::new();
                for s in 0..nsub {
                    let last = format!("{}col{}", rng.pick(&["", "Z", "ö", "zz"]), s);
                    let key = if nsub == 1 { "all".to_string() } else { format!("k{}", s) };
                    by_last.insert(last.clone(), s);
                    subs.push(SubpartitionMetadata { size_bytes: rng.next_u64() >> 20, subpartition_key: key, last_column: last, loaded: Arc::new(std::sync::atomic::AtomicBool::new(true)) });
                }
                let md = PartitionMetadata { id: p as u64 * 3 + 1, tablename: tname.clone(), offset: p * 100, len: 1 + rng.below(1000), subpartitions: subs.clone(), subpartitions_by_last_column: by_last };
                expect.insert((tname.clone(), md.id), (md.offset, md.len, subs.iter().map(|s| (s.subpartition_key.clone(), s.last_column.clone(), s.size_bytes)).collect()));
                ms.insert_partition(md);
            }
        }
        let cursor = *rng.pick(&[0u64, 1, 7, u32::MAX as u64 + 5, u64::MAX - 1]);
        ms.advance_earliest_unflushed_wal_id(cursor);
        let bytes = locustdb::verif::serialize_meta_store(&ms);
        out.eval(1);
        match MetaStore::deserialize(&bytes) {
            Ok(back) => {
                let mut got: BTreeMap<(String, u64), (usize, usize, Vec<(String, String, u64)>)> = BTreeMap::new();
                for p in back.partitions() {
                    got.insert((p.tablename.clone(), p.id), (p.offset, p.len, p.subpartitions.iter().map(|s| (s.subpartition_key.clone(), s.last_column.clone(), s.size_bytes)).collect()));
                }
                if got != expect {
                    out.fail(Failure::new("file", "catalogue_changed", "meta", format!("catalogue with {} partitions read back with {} (or different fields)", expect.len(), got.len()), json!({"tables": ntables})));
                } else if back.earliest_uncommited_wal_id() != cursor {
                    out.fail(Failure::new("file", "cursor_changed", "meta", format!("cursor {} read back as {}", cursor, back.earliest_uncommited_wal_id()), json!({"cursor": cursor})));
                } else {
                    out.distinct(format!("catalogue|tables={}|partitions={}|cursor={}", ntables, expect.len(), cursor));
                }
            }
            Err(e) => out.fail(Failure::new("file", "valid_file_rejected", "meta", format!("{}", e), json!({"tables": ntables}))),
        }
    }
}

fn wal_roundtrips(rng: &mut Rng, out: &mut CaseOut, rounds: usize) {
    let classes = gen::all_classes();
    for _ in 0..rounds {
        let (kind, class) = *rng.pick(&classes);
        let pat = *rng.pick(gen::NULL_PATTERNS);
        let rows = *rng.pick(&[0usize, 1, 9, 70]);
        let vals = gen::apply_nulls(gen::gen_column(kind, class, rows, rng), &gen::null_pattern(pat, rows, rng));
        let b = Batch { table: "w".into(), rows, cols: vec![("c".into(), ColRepr::from_logical(&vals)), ("m".into(), ColRepr::Mixed(vals.clone())), ("e".into(), ColRepr::Empty)] };
        let eb: EventBuffer = event_buffer(&[b.clone()], Via::Wire);
        let id = rng.next_u64();
        let seg = WalSegment { id, data: Cow::Borrowed(&eb) };
        let bytes = seg.serialize();
        out.eval(1);
        match WalSegment::deserialize(&bytes) {
            Ok(back) => {
                let same = back.id == id
                    && back.data.tables.len() == 1
                    && back.data.tables.get("w").map(|t| {
                        t.len() == rows
                            && b.cols.iter().all(|(n, r)| t.columns().find(|c| c.0 == n).map(|(_, cb)| format!("{:?}", cb.data) == format!("{:?}", crate::drive::column_data(r))).unwrap_or(false))
                    }).unwrap_or(false);
                if same {
                    out.distinct(format!("wal|{}|{}|{}|rows{}", kind, class, pat, rows));
                } else {
                    out.fail(Failure::new("file", "wal_segment_changed", kind, format!("WAL segment with {}/{}/{} rows={} read back differently", kind, class, pat, rows), json!({"kind": kind, "class": class})));
                }
            }
            Err(e) => out.fail(Failure::new("file", "valid_file_rejected", "wal", format!("{}", e), json!({}))),
        }
    }
}

/// Real files written by a real database: one WAL segment, one partition file, the catalogue.
fn make_real_files(seed: u64, op: &OpCell) -> (PathBuf, Vec<(String, String)>, World) {
    let mut rng = Rng::derive(seed, "c14files", 0);
    let cfg = DbCfg { disk: true, partition_combine_factor: 999, ..DbCfg::default() };
    let mut w = World::open(&cfg, Via::Wire, op);
    w.apply(&Op::Ingest(vec![mk_batch("ta", 1, 6, &mut rng), mk_batch("tb", 1, 4, &mut rng)]));
    w.apply(&Op::Flush);
    w.apply(&Op::Ingest(vec![mk_batch("ta", 2, 5, &mut rng)]));
    w.db.close(true);
    let root = w.db.path.clone().unwrap();
    let files = list_files(&root);
    let mut picks = Vec::new();
    if let Some(f) = files.iter().find(|f| f.starts_with("wal/") && f.ends_with(".wal")) {
        picks.push(("wal".to_string(), f.clone()));
    }
    if let Some(f) = files.iter().find(|f| f.starts_with("tables/ta/")) {
        picks.push(("partition".to_string(), f.clone()));
    }
    if files.iter().any(|f| f == "meta") {
        picks.push(("meta".to_string(), "meta".to_string()));
    }
    (root, picks, w)
}

fn envelope_faults(out: &mut CaseOut, root: &Path, picks: &[(String, String)], scratch: &Path, shard: usize, nshards: usize) {
    let w = writer();
    for (role, rel) in picks {
        let original = std::fs::read(root.join(rel)).expect("read real file");
        let payload = w.load(&root.join(rel)).expect("load unmodified file");
        let target = scratch.join(format!("fault_{}_{}", role, shard));
        let mut check = |bytes: &[u8], what: String, class: &str, out: &mut CaseOut| {
            std::fs::write(&target, bytes).unwrap();
            out.eval(1);
            match w.load(&target) {
                Err(_) => {
                    out.count(&format!("rejected:{}:{}", role, class), 1);
                }
                Ok(p) => {
                    if p == payload {
                        // harmless only if the stored bytes are in fact unchanged
                        if bytes != &original[..] {
                            out.fail(Failure::new("file", "modified_file_accepted", &format!("{}|{}", role, class), format!("{} file {}: {} - accepted although the stored bytes differ", role, rel, what), json!({"file": rel, "fault": what})));
                        }
                    } else {
                        out.fail(Failure::new("file", "decoded_into_different_data", &format!("{}|{}", role, class), format!("{} file {}: {} - load returned a different payload", role, rel, what), json!({"file": rel, "fault": what})));
                    }
                }
            }
        };
        // every single-bit flip (sharded by bit index)
        let nbits = original.len() * 8;
        for bit in (shard..nbits).step_by(nshards) {
            let mut b = original.clone();
            b[bit / 8] ^= 1 << (bit % 8);
            let region = if bit / 8 < 8 { "version" } else if bit / 8 < 16 { "length" } else if bit / 8 < 48 { "checksum" } else { "payload" };
            check(&b, format!("bit {} flipped ({})", bit, region), &format!("bitflip:{}", region), out);
        }
        if shard == 0 {
            for len in 0..original.len() {
                check(&original[..len], format!("truncated to {} of {} bytes", len, original.len()), "truncation", out);
            }
            for extra in [1usize, 8, 4096] {
                let mut b = original.clone();
                b.extend(std::iter::repeat(0xA5u8).take(extra));
                check(&b, format!("{} bytes appended", extra), "suffix", out);
            }
            check(&[], "empty file".into(), "empty", out);
            // a valid file of another kind under this name is a *valid envelope*: it must then be rejected by the decoder
            out.distinct(format!("envelope|{}|bits={}|lengths={}", role, nbits, original.len()));
            out.count(&format!("file_bytes:{}", role), original.len() as u64);
        }
        let _ = std::fs::remove_file(&target);
    }
}

fn end_to_end_faults(seed: u64, out: &mut CaseOut, root: &Path, picks: &[(String, String)], model: &World, nfaults: usize) {
    let mut rng = Rng::derive(seed, "c14e2e", 0);
    let cfg = DbCfg { disk: true, partition_combine_factor: 999, ..DbCfg::default() };
    // reference content of the uncorrupted directory
    let refdir = fresh_dir("c14ref");
    copy_dir(root, &refdir);
    let reference = match run_child(&refdir, &cfg, None) {
        ChildResult::Opened { tables, .. } => tables,
        other => {
            out.inconclusive.push(format!("reference open failed: {:?}", std::mem::discriminant(&other)));
            return;
        }
    };
    let _ = model;
    for (role, rel) in picks {
        let original = std::fs::read(root.join(rel)).unwrap();
        for k in 0..nfaults {
            let dir = fresh_dir("c14e2e");
            copy_dir(root, &dir);
            let mut b = original.clone();
            let what = match k % 4 {
                0 => {
                    let bit = rng.below(b.len() * 8);
                    b[bit / 8] ^= 1 << (bit % 8);
                    format!("bit {} flipped", bit)
                }
                1 => {
                    let len = rng.below(b.len());
                    b.truncate(len);
                    format!("truncated to {}", len)
                }
                2 => {
                    b.extend_from_slice(&[0u8; 8]);
                    "8 bytes appended".to_string()
                }
                _ => {
                    // swap in a valid file of another kind
                    let other = picks.iter().find(|(r, _)| r != role).map(|(_, f)| std::fs::read(root.join(f)).unwrap()).unwrap_or_default();
                    b = other;
                    "valid file of another kind".to_string()
                }
            };
            std::fs::write(dir.join(rel), &b).unwrap();
            let res = run_child(&dir, &cfg, None);
            out.eval(1);
            match res {
                ChildResult::Opened { tables, stderr } => {
                    let query_rejected = tables.values().any(|t| t.contains_key("__error__")) || stderr.contains("[panic]") || stderr.contains("child:");
                    if tables == reference {
                        out.count(&format!("e2e:{}:content_identical", role), 1);
                    } else if query_rejected {
                        out.count(&format!("e2e:{}:rejected_at_query", role), 1);
                    } else {
                        out.fail(Failure::new("file", "corrupted_file_changes_content", role, format!("{} file {} with {}: database opened and returned different content without any error", role, rel, what), json!({"file": rel, "fault": what})));
                    }
                }
                ChildResult::Died { .. } => out.count(&format!("e2e:{}:rejected_open_failed", role), 1),
                ChildResult::Hung { progressed: false, stderr } if stderr.contains("[panic]") => out.count(&format!("e2e:{}:rejected_open_blocked_after_panic", role), 1),
                ChildResult::Hung { .. } => out.count(&format!("e2e:{}:open_did_not_finish", role), 1),
            }
            out.distinct(format!("e2e|{}|{}", role, what.split(' ').next().unwrap_or("")));
            let _ = std::fs::remove_dir_all(&dir);
        }
    }
    let _ = std::fs::remove_dir_all(&refdir);
}

pub fn run(ctx: &mut Ctx) {
    let rounds = ctx.pick(16u64, 200);
    for i in 0..rounds {
        let id = format!("roundtrip-{}", i);
        if !ctx.take(&id) {
            continue;
        }
        let seed = ctx.seed;
        let n = ctx.pick(30usize, 60);
        ctx.run(&id, "file-roundtrip", json!({"round": i}), move |out, _op| {
            let mut rng = Rng::derive(seed, "c14rt", i);
            let dir = fresh_dir("c14rt");
            partition_roundtrips(&mut rng, out, &dir, n);
            catalogue_roundtrips(&mut rng, out, n * 3);
            wal_roundtrips(&mut rng, out, n * 3);
            let _ = std::fs::remove_dir_all(&dir);
            if i == 0 {
                out.sample(json!({"roundtrip": "PartitionSegment/MetaStore/WalSegment serialize -> store -> load -> deserialize", "partition_files": n}));
            }
        });
    }
    // exhaustive envelope faults over real files: every shard takes a slice of the bit positions
    let nfiles = ctx.pick(1u64, 20);
    for f in 0..nfiles {
        for s in 0..16usize {
            let id = format!("faults-{}-{}", f, s);
            if !ctx.take(&id) {
                continue;
            }
            let seed = ctx.seed.wrapping_add(f * 7919);
            ctx.run(&id, "file-faults", json!({"file_set": f, "slice": s}), move |out, op| {
                let (root, picks, _w) = make_real_files(seed, op);
                let scratch = fresh_dir("c14f");
                envelope_faults(out, &root, &picks, &scratch, s, 16);
                let _ = std::fs::remove_dir_all(&scratch);
                if s == 0 {
                    out.sample(json!({"files": picks, "faults": "every single-bit flip, every truncation length, suffixes 1/8/4096, empty"}));
                }
            });
        }
    }
    for f in 0..ctx.pick(3u64, 40) {
        let id = format!("e2e-{}", f);
        if !ctx.take(&id) {
            continue;
        }
        let seed = ctx.seed.wrapping_add(f * 104729);
        let nf = ctx.pick(8usize, 50);
        ctx.run(&id, "file-faults-e2e", json!({"file_set": f}), move |out, op| {
            let (root, picks, w) = make_real_files(seed, op);
            end_to_end_faults(seed, out, &root, &picks, &w, nf);
        });
    }
}
