//! C04 — aggregates are computed per distinct group, once, over all rows.
use serde_json::json;

use crate::ctx::Ctx;
use crate::drive::DbCfg;
use crate::guard::OpCell;
use crate::model::{LTable, V};
use crate::props::c03::{col_stats, setup, PredGen};
use crate::qcheck::{self, RefAnswer, Verdict};
use crate::report::CaseOut;
use crate::rng::Rng;
use crate::sql::{bin, col, AggF, Op, E, Q};
use crate::tables::{coldef, make_table, random_splits, ColDef, GenTable, Realisation};

/// Columns for grouping tests: keys of controlled cardinality + value columns.
pub fn group_columns() -> Vec<ColDef> {
    let mut v = vec![
        coldef("v_i", "int", "small_mixed_sign", 0.0),
        coldef("v_in", "int", "u8_neg", 0.3),
        coldef("v_u16", "int", "u16", 0.0),
        coldef("v_f", "float", "f32_exact", 0.0),
        coldef("v_fn", "float", "int_valued", 0.3),
        coldef("v_big", "int", "i64_full", 0.2),
    ];
    let mut a = coldef("v_abs", "int", "u8", 0.0);
    a.absent_mod = 2;
    v.push(a);
    v
}

/// Adds key columns with exact cardinalities to a generated table.
pub fn add_key_columns(gt: &mut GenTable, rng: &mut Rng, relation: &str) {
    let n = gt.table.len;
    let mut batch_of_row = Vec::with_capacity(n);
    for (bi, &rows) in gt.splits.iter().enumerate() {
        for _ in 0..rows {
            batch_of_row.push(bi);
        }
    }
    let card = |c: usize, rng: &mut Rng| -> Vec<V> {
        (0..n)
            .map(|i| {
                let k = match relation {
                    // every partition holds its own key range
                    "disjoint" => (batch_of_row[i] * 1000 + rng.below(c.min(1000))) as i64,
                    // all partitions see all keys in the same order
                    "equal" => (i % c) as i64,
                    _ => rng.below(c) as i64,
                };
                V::Int(k)
            })
            .collect()
    };
    let mut add = |name: &str, vals: Vec<V>, kind: &'static str| {
        gt.table.cols.insert(name.to_string(), vals);
        gt.defs.push(coldef(name, kind, "key", 0.0));
    };
    add("g1", vec![V::Int(7); n], "int");
    add("g2", card(2, rng), "int");
    add("g10", card(10, rng), "int");
    let g10n: Vec<V> = card(10, rng).into_iter().map(|v| if rng.chance(0.15) { V::Null } else { v }).collect();
    add("g10n", g10n, "int");
    add("g255", card(255, rng), "int");
    add("g256", card(256, rng), "int");
    add("g300", card(300, rng), "int");
    add("g_neg", card(40, rng).into_iter().map(|v| if let V::Int(i) = v { V::Int(i - 20) } else { v }).collect(), "int");
    add("g_wide", card(50, rng).into_iter().map(|v| if let V::Int(i) = v { V::Int(i * 1_000_003) } else { v }).collect(), "int");
    let gs: Vec<V> = card(12, rng).into_iter().map(|v| if let V::Int(i) = v { V::Str(format!("grp{}", i)) } else { v }).collect();
    add("gs", gs, "str");
    let gsn: Vec<V> = card(5, rng).into_iter().map(|v| if rng.chance(0.2) { V::Null } else if let V::Int(i) = v { V::Str(format!("n{}", i)) } else { v }).collect();
    add("gsn", gsn, "str");
    let gsh: Vec<V> = card(400, rng).into_iter().map(|v| if let V::Int(i) = v { V::Str(format!("hk{:05}", i)) } else { v }).collect();
    add("gs_hi", gsh, "str");
    let gf: Vec<V> = card(6, rng).into_iter().map(|v| if let V::Int(i) = v { V::Float(i as f64 * 0.25 + 1.0) } else { v }).collect();
    add("gf", gf, "float");
    let gfn: Vec<V> = card(4, rng).into_iter().map(|v| if rng.chance(0.2) { V::Null } else if let V::Int(i) = v { V::Float(i as f64 + 0.5) } else { v }).collect();
    add("gfn", gfn, "float");
}

pub const KEYS: &[&str] = &["g1", "g2", "g10", "g10n", "g255", "g256", "g300", "g_neg", "g_wide", "gs", "gsn", "gs_hi", "gf", "gfn", "v_abs"];
pub const VALS: &[&str] = &["v_i", "v_in", "v_u16", "v_f", "v_fn", "v_abs", "g10n", "g300"];

pub fn gen_group_query(rng: &mut Rng, table: &LTable, allow_order: bool) -> (Q, String) {
    let mut q = Q::new(&table.name);
    let k = *rng.pick(&[0usize, 1, 1, 1, 2, 2, 3]);
    let mut key_labels = Vec::new();
    let mut used = Vec::new();
    for _ in 0..k {
        let c = *rng.pick(KEYS);
        if used.contains(&c) {
            continue;
        }
        used.push(c);
        let e = if (c == "g300" || c == "g255" || c == "g_wide") && rng.chance(0.25) {
            key_labels.push(format!("{}/10", c));
            bin(Op::Div, col(c), E::Int(10))
        } else if c == "g256" && rng.chance(0.2) {
            key_labels.push(format!("{}%7", c));
            bin(Op::Mod, col(c), E::Int(7))
        } else {
            key_labels.push(c.to_string());
            col(c)
        };
        q.select.push((e, None));
    }
    let fs = [AggF::Count, AggF::Sum, AggF::Min, AggF::Max, AggF::Avg];
    let nagg = 1 + rng.below(3);
    let mut agg_labels = Vec::new();
    for _ in 0..nagg {
        let f = *rng.pick(&fs);
        let arg = if f == AggF::Count && rng.chance(0.4) { E::Int(0) } else { col(*rng.pick(VALS)) };
        let item = E::Agg(f, Box::new(arg.clone()));
        if q.select.iter().any(|s| s.0 == item) {
            continue;
        }
        agg_labels.push(format!("{}({})", f.sql(), match &arg { E::Col(c) => c.clone(), _ => "0".into() }));
        q.select.push((item, None));
    }
    // aggregates first or interleaved with keys sometimes
    if rng.chance(0.2) {
        q.select.reverse();
    }
    let mut extra = String::new();
    if rng.chance(0.35) {
        // simple, well-supported filters only (C03 owns the predicate space)
        let c = *rng.pick(&["g10", "v_u16", "g300", "v_i"]);
        let stats = table.cols.get(c).map(|v| v.iter().filter_map(|x| if let V::Int(i) = x { Some(*i) } else { None }).collect::<Vec<_>>()).unwrap_or_default();
        if !stats.is_empty() {
            let k = *rng.pick(&stats);
            let op = *rng.pick(&[Op::Lt, Op::Ge, Op::Ne, Op::Eq]);
            q.filter = Some(bin(op, col(c), E::Int(k)));
            extra.push_str("|where");
        }
    }
    if allow_order && rng.chance(0.3) && !q.select.is_empty() {
        // ORDER BY every select item that has an exact value (full key => deterministic order), then LIMIT
        let mut idx: Vec<usize> = (0..q.select.len()).collect();
        rng.shuffle(&mut idx);
        for i in idx {
            let e = q.select[i].0.clone();
            let exact = !matches!(&e, E::Agg(AggF::Avg, _)) && !matches!(&e, E::Agg(AggF::Sum, a) if matches!(&**a, E::Col(c) if c == "v_f" || c == "v_fn"));
            if exact {
                q.order_by.push((e, rng.chance(0.4)));
            }
        }
        if !q.order_by.is_empty() {
            extra.push_str("|order");
            if rng.chance(0.6) {
                q.limit = Some(*rng.pick(&[1u64, 3, 10, 100]));
                extra.push_str("|limit");
            }
        }
    }
    (q, format!("k{}[{}]|{}{}", key_labels.len(), key_labels.join(","), agg_labels.join(","), extra))
}

/// Decision list over the minimal failing statement (most specific first). `long_partition`: some partition of
/// the realisation is longer than the streaming batch size.
pub fn diagnose_ctx(mq: &Q, mode: &str, got: &Result<crate::drive::QOut, crate::drive::QErr>, table: &LTable, long_partition: bool) -> Option<String> {
    if let Some(d) = diagnose(mq, mode, got, table) {
        return Some(d);
    }
    let ann = qcheck::annotate(table);
    let mut cols = Vec::new();
    for (e, _) in &mq.select {
        e.cols(&mut cols);
    }
    if let Some(f) = &mq.filter {
        f.cols(&mut cols);
    }
    if cols.iter().any(|c| matches!(ann.get(c).copied(), Some(a) if a.ends_with('~') || a == "null")) {
        return Some("aggregate_query_on_column_absent_in_some_partition".into());
    }
    if !mq.order_by.is_empty() {
        return Some("grouped_query_with_order_by".into());
    }
    // coarse class of the minimal statement: number of grouping keys, filter, ordering, long partitions
    let nkeys = mq.select.iter().filter(|s| !s.0.has_agg()).count();
    let key_kinds: Vec<&str> = mq
        .select
        .iter()
        .filter(|s| !s.0.has_agg())
        .map(|s| match &s.0 {
            E::Col(c) => match ann.get(c).copied().unwrap_or("none") {
                "int" => "int",
                "int?" => "int?",
                "float" => "float",
                "float?" => "float?",
                "str" => "str",
                "str?" => "str?",
                _ => "other",
            },
            _ => "expr",
        })
        .collect();
    let mut kk = key_kinds.clone();
    kk.sort();
    kk.dedup();
    Some(format!(
        "class:k{}[{}]{}{}{}",
        nkeys.min(2),
        kk.join(","),
        if mq.filter.is_some() { "+where" } else { "" },
        if !mq.order_by.is_empty() { "+order" } else { "" },
        if long_partition { "+long" } else { "" }
    ))
}

pub fn diagnose(mq: &Q, mode: &str, got: &Result<crate::drive::QOut, crate::drive::QErr>, table: &LTable) -> Option<String> {
    // Aggregates over a group whose inputs are all NULL: COUNT returns NULL instead of 0 (pinned by
    // test_null_aggregators2) and AVG = SUM/COUNT on the in-band NULL markers returns 1.
    let g = got.as_ref().ok()?;
    if mode != "changed_group" && mode != "changed" && mode != "missing_group" {
        return None;
    }
    let refa = qcheck::reference(mq, table);
    let rows: Vec<Vec<qcheck::AggCell>> = match &refa {
        RefAnswer::Multiset { rows } => rows.iter().map(|r| r.cells.clone()).collect(),
        RefAnswer::Ordered { all, .. } => all.iter().map(|r| r.cells.clone()).collect(),
        _ => return None,
    };
    let got_rows = g.rows_from_cols();
    let count_cols: Vec<usize> = mq.select.iter().enumerate().filter(|(_, s)| matches!(&s.0, E::Agg(AggF::Count, _))).map(|(i, _)| i).collect();
    let avg_cols: Vec<usize> = mq.select.iter().enumerate().filter(|(_, s)| matches!(&s.0, E::Agg(AggF::Avg, _))).map(|(i, _)| i).collect();
    if count_cols.is_empty() && avg_cols.is_empty() {
        return None;
    }
    let matches = |w: &Vec<qcheck::AggCell>, g: &Vec<V>| w.len() == g.len() && w.iter().zip(g.iter()).all(|(w, g)| qcheck::cell_ok(w, g));
    let mut used = vec![false; rows.len()];
    let mut left = Vec::new();
    for gr in &got_rows {
        match rows.iter().enumerate().position(|(i, w)| !used[i] && matches(w, gr)) {
            Some(i) => used[i] = true,
            None => left.push(gr.clone()),
        }
    }
    if left.is_empty() && mode != "missing_group" {
        return None;
    }
    for gr in &left {
        let mut p = gr.clone();
        for &c in &count_cols {
            if p[c] == V::Null || p[c] == V::Int(crate::model::I64_NULL) {
                p[c] = V::Int(0);
            }
        }
        for &c in &avg_cols {
            if p[c] == V::Int(1) {
                p[c] = V::Null;
            }
        }
        match rows.iter().enumerate().position(|(i, w)| !used[i] && matches(w, &p)) {
            Some(i) => used[i] = true,
            None => return None,
        }
    }
    // reference groups the engine dropped altogether must be groups with an all-NULL aggregate input
    for (i, w) in rows.iter().enumerate() {
        if !used[i] {
            let all_null_input = count_cols.iter().any(|&c| matches!(&w[c], qcheck::AggCell::Exact(V::Int(0))))
                || avg_cols.iter().any(|&c| matches!(&w[c], qcheck::AggCell::Exact(V::Null)));
            if !all_null_input {
                return None;
            }
        }
    }
    Some("count_or_avg_of_all_null_group".into())
}

fn strategy_of(plans: &[String]) -> Vec<&'static str> {
    let mut v = Vec::new();
    for p in plans {
        for (needle, name) in [
            ("HashMapGrouping", "hashmap_grouping"),
            ("hashmap_grouping", "hashmap_grouping"),
            ("val_rows", "val_rows"),
            ("ValRows", "val_rows"),
            ("byte_slices", "byte_slices"),
            ("bit_unpack", "bit_packed_key"),
            ("BitUnpack", "bit_packed_key"),
            ("nonzero_compact", "array_index"),
            ("NonzeroCompact", "array_index"),
            ("merge_aggregate", "merge_aggregate"),
            ("merge_deduplicate", "merge_deduplicate"),
        ] {
            if p.contains(needle) && !v.contains(&name) {
                v.push(name);
            }
        }
    }
    v
}

fn run_case(id: String, seed: u64, n: usize, parts: usize, relation: &'static str, nq: usize, disk: bool, out: &mut CaseOut, op: &OpCell) {
    let mut rng = Rng::derive(seed, &id, 0);
    let splits = if relation == "equal" { vec![n / parts; parts] } else { random_splits(n, parts, &mut rng) };
    let n: usize = splits.iter().sum();
    let mut gt = make_table("t", &group_columns(), &splits, &mut rng);
    add_key_columns(&mut gt, &mut rng, relation);
    let mut real = Realisation::partitions(&splits, 2);
    if rng.chance(0.3) {
        *real.flush_after.last_mut().unwrap() = false;
    }
    if disk {
        real.cfg = DbCfg { disk: true, partition_combine_factor: 999, ..DbCfg::default() };
        real.evict = true;
    }
    let case = json!({"n": n, "splits": splits, "relation": relation, "realisation": real.to_json()});
    let long = splits.iter().any(|s| *s > real.cfg.batch_size);
    let mut env = setup(gt, &real, &mut rng, op);
    let _stats = col_stats(&env.gt.table);
    let mut sampled = false;
    for _ in 0..nq {
        let (q, label) = gen_group_query(&mut rng, &env.gt.table, true);
        let table = &env.gt.table;
        let refa = qcheck::reference(&q, table);
        let ngroups = match &refa {
            RefAnswer::Multiset { rows } => rows.len(),
            RefAnswer::Ordered { all, .. } => all.len(),
            _ => 0,
        };
        let v = qcheck::check_diag(&q, table, &env.db, &mut env.probe, out, "groupby", relation, &case, &|mq, mode, got, t| diagnose_ctx(mq, mode, got, t, long));
        if let Some(Verdict::Agree) = v {
            if ngroups >= 2 {
                // strategy coverage from the executed plan (explain on a second run, never the compared one)
                let strat = match env.db.query_opts(&q.sql(), true, false) {
                    Ok(o) => strategy_of(&o.plans).join("+"),
                    Err(_) => String::new(),
                };
                for s in strat.split('+') {
                    if !s.is_empty() {
                        out.set("grouping_strategies", s.to_string());
                    }
                }
                let bucket = match ngroups {
                    2..=9 => "2-9",
                    10..=255 => "10-255",
                    256..=65535 => "256-65535",
                    _ => "65536+",
                };
                out.distinct(format!("{}|groups:{}|parts:{}|{}|{}", label, bucket, parts, relation, strat));
                out.count("multi_group_agree", 1);
                if !sampled {
                    sampled = true;
                    out.sample(json!({"sql": q.sql(), "groups": ngroups, "rows": n, "splits": splits, "relation": relation}));
                }
            }
        }
    }
    out.count("supported_shapes", env.probe.supported_shapes);
    out.count("unsupported_shapes", env.probe.unsupported_shapes);
    for s in &env.probe.unsupported_samples {
        out.set("unsupported_shape_samples", qcheck::trunc(s, 200));
    }
    let _ = PredGen::new;
}

/// One big case: a key with more than 65 536 distinct values (array -> hash grouping switch).
fn run_big(id: String, seed: u64, out: &mut CaseOut, op: &OpCell) {
    let mut rng = Rng::derive(seed, &id, 0);
    let n = 70_000;
    let splits = vec![40_000, 30_000];
    let mut gt = make_table("t", &[coldef("v_i", "int", "small_mixed_sign", 0.0)], &splits, &mut rng);
    let big: Vec<V> = (0..n).map(|i| V::Int(((i * 7919) % 66_000) as i64)).collect();
    gt.table.cols.insert("g_big".into(), big);
    gt.defs.push(coldef("g_big", "int", "key", 0.0));
    let e16: Vec<V> = (0..n).map(|i| V::Int((i % 65_536) as i64)).collect();
    gt.table.cols.insert("g_65536".into(), e16);
    gt.defs.push(coldef("g_65536", "int", "key", 0.0));
    let real = Realisation::partitions(&splits, 2);
    let case = json!({"n": n, "splits": splits, "big": true});
    let mut env = setup(gt, &real, &mut rng, op);
    for (key, f) in [("g_big", AggF::Count), ("g_big", AggF::Sum), ("g_65536", AggF::Count), ("g_65536", AggF::Max)] {
        let mut q = Q::new("t");
        q.select.push((col(key), None));
        q.select.push((E::Agg(f, Box::new(col("v_i"))), None));
        let v = qcheck::check(&q, &env.gt.table, &env.db, &mut env.probe, out, "groupby", "big", &case);
        if let Some(Verdict::Agree) = v {
            out.distinct(format!("k1[{}]|{}|groups:65536+|parts:2", key, f.sql()));
            out.count("multi_group_agree", 1);
            out.count("groups_over_65535_agree", 1);
        }
    }
}

pub fn run(ctx: &mut Ctx) {
    let ncases = ctx.pick(144u64, 1500);
    let nq = ctx.pick(60usize, 80);
    for i in 0..ncases {
        if i >= 48 && ctx.out_of_time() {
            break;
        }
        let id = format!("group-{}", i);
        if !ctx.take(&id) {
            continue;
        }
        let n = [200usize, 600, 1300, 3000][(i % 4) as usize];
        let parts = 1 + (i % 6) as usize;
        let relation = ["interleaved", "disjoint", "equal"][(i % 3) as usize];
        let disk = i % 7 == 6;
        let seed = ctx.seed;
        let idc = id.clone();
        ctx.run(&id, "groupby-query", json!({"n": n, "parts": parts, "relation": relation}), move |out, op| {
            run_case(idc, seed, n, parts, relation, nq, disk, out, op)
        });
    }
    let id = "group-big".to_string();
    if ctx.take(&id) {
        let seed = ctx.seed;
        let idc = id.clone();
        ctx.run(&id, "groupby-query", json!({"big": true}), move |out, op| run_big(idc, seed, out, op));
    }
}
