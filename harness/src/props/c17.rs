//! C17 — the HTTP interface behaves like the embedded one.
use std::collections::{BTreeMap, HashSet};
use std::io::{Read, Write};
use std::net::{TcpListener, TcpStream};
use std::sync::Arc;
use std::time::Duration;

use locustdb::{BasicTypeColumn, LocustDB};
use locustdb_serialization::api::{AnyVal, Column, EncodingOpts, MultiQueryRequest, MultiQueryResponse, QueryRequest};
use serde_json::{json, Value as J};

use crate::ctx::Ctx;
use crate::drive::{wire_encode, DbCfg};
use crate::guard::OpCell;
use crate::model::V;
use crate::report::{CaseOut, Failure};
use crate::rng::Rng;
use crate::tables::{batch_of, make_table, standard_columns};

pub struct Http {
    addr: String,
    conn: Option<TcpStream>,
}

#[derive(Debug)]
pub struct Resp {
    pub status: u16,
    pub body: Vec<u8>,
}

impl Http {
    pub fn new(addr: &str) -> Http {
        Http { addr: addr.to_string(), conn: None }
    }

    /// One request on a kept-alive connection (reconnects once if the server closed it).
    pub fn post(&mut self, path: &str, content_type: &str, body: &[u8]) -> Result<Resp, String> {
        for attempt in 0..2 {
            if self.conn.is_none() {
                let s = TcpStream::connect(&self.addr).map_err(|e| format!("connect: {}", e))?;
                s.set_read_timeout(Some(Duration::from_secs(20))).ok();
                self.conn = Some(s);
            }
            let fresh = attempt == 1;
            match self.try_post(path, content_type, body) {
                Ok(r) => return Ok(r),
                Err(e) => {
                    self.conn = None;
                    if fresh {
                        return Err(e);
                    }
                }
            }
        }
        Err("unreachable".into())
    }

    fn try_post(&mut self, path: &str, content_type: &str, body: &[u8]) -> Result<Resp, String> {
        let s = self.conn.as_mut().unwrap();
        let head = format!("POST {} HTTP/1.1\r\nHost: localhost\r\nContent-Type: {}\r\nContent-Length: {}\r\nConnection: keep-alive\r\n\r\n", path, content_type, body.len());
        s.write_all(head.as_bytes()).map_err(|e| format!("write: {}", e))?;
        s.write_all(body).map_err(|e| format!("write: {}", e))?;
        // read headers
        let mut buf = Vec::new();
        let mut tmp = [0u8; 4096];
        let header_end;
        loop {
            if let Some(pos) = find(&buf, b"\r\n\r\n") {
                header_end = pos + 4;
                break;
            }
            let n = s.read(&mut tmp).map_err(|e| format!("read: {}", e))?;
            if n == 0 {
                return Err(format!("connection closed before a response ({} bytes read)", buf.len()));
            }
            buf.extend_from_slice(&tmp[..n]);
        }
        let head = String::from_utf8_lossy(&buf[..header_end]).to_string();
        let status: u16 = head.split_whitespace().nth(1).and_then(|x| x.parse().ok()).ok_or("bad status line")?;
        let lower = head.to_lowercase();
        let mut body = buf[header_end..].to_vec();
        if let Some(cl) = lower.lines().find_map(|l| l.strip_prefix("content-length:")).and_then(|v| v.trim().parse::<usize>().ok()) {
            while body.len() < cl {
                let n = s.read(&mut tmp).map_err(|e| format!("read body: {}", e))?;
                if n == 0 {
                    return Err("connection closed inside the body".into());
                }
                body.extend_from_slice(&tmp[..n]);
            }
            body.truncate(cl);
        } else if lower.contains("transfer-encoding: chunked") {
            // de-chunk
            let mut raw = body;
            loop {
                if find(&raw, b"0\r\n\r\n").is_some() {
                    break;
                }
                let n = s.read(&mut tmp).map_err(|e| format!("read chunk: {}", e))?;
                if n == 0 {
                    break;
                }
                raw.extend_from_slice(&tmp[..n]);
            }
            let mut out = Vec::new();
            let mut i = 0;
            while let Some(p) = find(&raw[i..], b"\r\n") {
                let sz = usize::from_str_radix(String::from_utf8_lossy(&raw[i..i + p]).trim(), 16).unwrap_or(0);
                if sz == 0 {
                    break;
                }
                let start = i + p + 2;
                out.extend_from_slice(&raw[start..(start + sz).min(raw.len())]);
                i = start + sz + 2;
                if i >= raw.len() {
                    break;
                }
            }
            body = out;
        }
        if lower.contains("connection: close") {
            self.conn = None;
        }
        Ok(Resp { status, body })
    }
}

fn find(h: &[u8], n: &[u8]) -> Option<usize> {
    h.windows(n.len()).position(|w| w == n)
}

fn free_port() -> u16 {
    TcpListener::bind("127.0.0.1:0").unwrap().local_addr().unwrap().port()
}

/// Expected transport image of an embedded column: JSON view.
fn json_cells(c: &BasicTypeColumn) -> Vec<J> {
    let f = |x: f64| if x.is_finite() { json!(x) } else { J::Null };
    match c {
        BasicTypeColumn::Int(xs) => xs.iter().map(|i| json!(i)).collect(),
        BasicTypeColumn::Float(xs) => xs.iter().map(|x| f(*x)).collect(),
        BasicTypeColumn::String(xs) => xs.iter().map(|s| json!(s)).collect(),
        BasicTypeColumn::Null(n) => vec![J::Null; *n],
        BasicTypeColumn::Mixed(xs) => xs
            .iter()
            .map(|v| match crate::drive::rawval(v) {
                V::Int(i) => json!(i),
                V::Float(x) => f(x),
                V::Str(s) => json!(s),
                V::Null => J::Null,
            })
            .collect(),
    }
}

fn json_eq(a: &J, b: &J) -> bool {
    match (a, b) {
        (J::Number(x), J::Number(y)) => {
            if let (Some(i), Some(j)) = (x.as_i64(), y.as_i64()) {
                return i == j;
            }
            // integers must be exact: only compare as floats when one side is not an integer
            // serde_json's default float parser is not exactly round-tripping: allow a few ulp on the client side
            match (x.as_f64(), y.as_f64()) {
                (Some(p), Some(q)) => p == q || (p - q).abs() <= p.abs().max(q.abs()) * 4e-16,
                _ => false,
            }
        }
        _ => a == b,
    }
}

/// Cells of a binary response column, as logical values (None = NULL).
fn api_cells(c: &Column) -> Result<Vec<V>, String> {
    Ok(match c {
        Column::Int(xs) => xs.iter().map(|i| V::Int(*i)).collect(),
        Column::Float(xs) => xs.iter().map(|f| if f.to_bits() == crate::model::F64_NULL_BITS { V::Null } else { V::Float(*f) }).collect(),
        Column::String(xs) => xs.iter().map(|s| V::Str(s.clone())).collect(),
        Column::Null(n) => vec![V::Null; *n],
        Column::Mixed(xs) => xs
            .iter()
            .map(|v| match v {
                AnyVal::Int(i) => V::Int(*i),
                AnyVal::Float(f) => V::Float(*f),
                AnyVal::Str(s) => V::Str(s.clone()),
                AnyVal::Null => V::Null,
            })
            .collect(),
        Column::Xor(bytes) => locustdb_compression_utils::xor_float::double::decode(bytes)
            .map_err(|e| format!("xor decode: {:?}", e))?
            .into_iter()
            .map(|f| if f.to_bits() == crate::model::F64_NULL_BITS { V::Null } else { V::Float(f) })
            .collect(),
    })
}

fn embedded_cells(c: &BasicTypeColumn) -> Vec<V> {
    crate::drive::basic_col(c).0
}

const QUERIES: &[&str] = &[
    "SELECT id, i_u8, i_big FROM t",
    "SELECT i_bign, i_u8n FROM t",
    "SELECT f_half, f_halfn, f_mix FROM t",
    "SELECT s_dict, s_dictn, s_uni FROM t",
    "SELECT id, nonexistent FROM t",
    "SELECT i_abs, s_abs, f_abs FROM t",
    "SELECT s_dict, COUNT(0), SUM(i_u8), MIN(f_half), MAX(i_big) FROM t",
    "SELECT COUNT(0), SUM(f_half) FROM t",
    "SELECT id, s_pack FROM t WHERE i_u8 < 50 ORDER BY id DESC LIMIT 7",
    "SELECT i_u16 / 10 AS tens, i_off + 1 FROM t WHERE s_hex IS NOT NULL LIMIT 20",
    "SELECT * FROM t LIMIT 5",
    "SELECT id FROM t WHERE i_u8 > 100000",
    "SELECT i_big FROM t ORDER BY i_big LIMIT 3",
];

const FAILING: &[&str] = &[
    "SELEC id FROM t",
    "SELECT id FROM nonexistent_table",
    "SELECT s_dict + 1 FROM t",
    "SELECT i_big * i_big FROM t",
    "SELECT id FROM t GROUP BY id",
    "SELECT id FROM t LIMIT 1.5",
    "",
];

fn run_case(id: String, seed: u64, nconn: usize, out: &mut CaseOut, op: &OpCell) {
    let mut rng = Rng::derive(seed, &id, 0);
    let cfg = DbCfg { disk: false, threads: 3, ..DbCfg::default() };
    let db = Arc::new(LocustDB::new(&cfg.options(None)));
    let port = free_port();
    let addr = format!("127.0.0.1:{}", port);
    op.set("server::run");
    let (handle, _rx) = match locustdb::server::run(db.clone(), false, vec![], addr.clone()) {
        Ok(x) => x,
        Err(e) => {
            out.inconclusive.push(format!("cannot start HTTP server on {}: {}", addr, e));
            return;
        }
    };
    op.set("");
    std::thread::sleep(Duration::from_millis(150));
    let mut conns: Vec<Http> = (0..nconn).map(|_| Http::new(&addr)).collect();
    let case = json!({"connections": nconn});
    // --- insert through /insert_bin, in several requests, interleaved with queries
    let splits = vec![30, 40, 25];
    let gt = make_table("t", &standard_columns(), &splits, &mut rng);
    let mut start = 0;
    for (bi, rows) in splits.iter().enumerate() {
        let b = batch_of(&gt.table, start, start + rows, true);
        start += rows;
        let bytes = wire_encode(&[b]);
        let c = rng.below(nconn);
        op.set("POST /insert_bin");
        let r = conns[c].post("/insert_bin", "application/octet-stream", &bytes);
        op.set("");
        out.eval(1);
        match r {
            Ok(resp) if resp.status == 200 => out.count("inserts_ok", 1),
            Ok(resp) => out.fail(Failure::new("http", "insert_rejected", "insert_bin", format!("/insert_bin answered {} {}", resp.status, String::from_utf8_lossy(&resp.body).chars().take(200).collect::<String>()), case.clone())),
            Err(e) => out.fail(Failure::new("http", "insert_no_response", "insert_bin", e, case.clone())),
        }
        if bi == 1 {
            db.force_flush();
        }
        // a query between inserts, compared with the embedded answer taken right after
        let q = QUERIES[rng.below(QUERIES.len())];
        compare_all(&db, &mut conns[rng.below(nconn)], q, &mut rng, out, op, &case);
    }
    for q in QUERIES {
        let c = rng.below(nconn);
        compare_all(&db, &mut conns[c], q, &mut rng, out, op, &case);
    }
    // --- failing queries map to an error status and the server keeps answering
    for q in FAILING {
        for ep in ["/query", "/query_cols", "/multi_query_cols"] {
            let c = rng.below(nconn);
            let body = if ep == "/multi_query_cols" {
                serde_json::to_vec(&MultiQueryRequest { queries: vec![QUERIES[0].to_string(), q.to_string()], encoding_opts: None }).unwrap()
            } else {
                serde_json::to_vec(&QueryRequest { query: q.to_string() }).unwrap()
            };
            op.set(&format!("POST {} (failing query)", ep));
            let r = conns[c].post(ep, "application/json", &body);
            op.set("");
            out.eval(1);
            match r {
                Ok(resp) if resp.status >= 400 => {
                    out.count("failing_queries_answered_with_error_status", 1);
                    out.distinct(format!("error_status|{}|{}|{}", ep, resp.status, crate::qcheck::trunc(q, 24)));
                }
                Ok(resp) => out.fail(Failure::new("http", "failing_query_status_ok", ep, format!("{} with failing query '{}' answered {}", ep, q, resp.status), case.clone())),
                Err(e) => out.fail(Failure::new("http", "failing_query_no_response", ep, format!("{} with failing query '{}': {}", ep, q, e), case.clone())),
            }
            // the next request on the same connection pool is answered
            let body = serde_json::to_vec(&QueryRequest { query: "SELECT COUNT(0) FROM t".to_string() }).unwrap();
            let r = conns[c].post("/query_cols", "application/json", &body);
            out.eval(1);
            match r {
                Ok(resp) if resp.status == 200 => {}
                other => out.fail(Failure::new("http", "server_stopped_answering", ep, format!("request after failing query '{}' on {}: {:?}", q, ep, other.map(|r| r.status)), case.clone())),
            }
        }
    }
    op.set("server stop");
    futures::executor::block_on(handle.stop(false));
    op.set("");
    if id.ends_with('0') {
        out.sample(json!({"endpoints": ["/insert_bin", "/query", "/query_cols", "/multi_query_cols (json, binary, binary+xor, binary+xor+mantissa)"], "queries": QUERIES.len(), "connections": nconn}));
    }
}

#[allow(clippy::too_many_arguments)]
fn compare_all(db: &Arc<LocustDB>, http: &mut Http, sql: &str, rng: &mut Rng, out: &mut CaseOut, op: &OpCell, case: &J) {
    // embedded reference (row view and column view)
    let emb = futures::executor::block_on(db.run_query(sql, false, true, vec![]));
    let emb = match emb {
        Ok(e) => e,
        Err(e) => {
            out.count("embedded_errors", 1);
            let _ = e;
            return;
        }
    };
    let fail = |out: &mut CaseOut, mode: &str, ep: &str, detail: String| {
        out.fail(Failure::new("http", mode, ep, format!("{} :: {}", sql, detail), case.clone()));
    };
    // /query : rows
    let body = serde_json::to_vec(&QueryRequest { query: sql.to_string() }).unwrap();
    op.set("POST /query");
    let r = http.post("/query", "application/json", &body);
    op.set("");
    out.eval(1);
    match r {
        Ok(resp) if resp.status == 200 => match serde_json::from_slice::<J>(&resp.body) {
            Ok(j) => {
                let names: Vec<String> = j["colnames"].as_array().map(|a| a.iter().filter_map(|x| x.as_str().map(|s| s.to_string())).collect()).unwrap_or_default();
                if names != emb.colnames {
                    fail(out, "colnames_differ", "/query", format!("HTTP {:?} embedded {:?}", names, emb.colnames));
                } else {
                    let rows = j["rows"].as_array().cloned().unwrap_or_default();
                    let erows = emb.rows.clone().unwrap_or_default();
                    if rows.len() != erows.len() {
                        fail(out, "rowcount_differs", "/query", format!("HTTP {} rows, embedded {}", rows.len(), erows.len()));
                    } else {
                        let mut bad = None;
                        'o: for (ri, (hr, er)) in rows.iter().zip(erows.iter()).enumerate() {
                            let ecells = json_cells(&BasicTypeColumn::Mixed(er.clone()));
                            let hcells = hr.as_array().cloned().unwrap_or_default();
                            if hcells.len() != ecells.len() {
                                bad = Some((ri, 0, json!("width"), json!("width")));
                                break;
                            }
                            for (ci, (h, e)) in hcells.iter().zip(ecells.iter()).enumerate() {
                                if !json_eq(h, e) {
                                    bad = Some((ri, ci, h.clone(), e.clone()));
                                    break 'o;
                                }
                            }
                        }
                        match bad {
                            Some((r, c, h, e)) => fail(out, "cell_differs", "/query", format!("row {} col {}: HTTP {} embedded {}", r, c, h, e)),
                            None => out.distinct(format!("/query|{}", crate::qcheck::trunc(sql, 40))),
                        }
                    }
                }
            }
            Err(e) => fail(out, "bad_json", "/query", format!("{}", e)),
        },
        Ok(resp) => fail(out, "unexpected_status", "/query", format!("status {}", resp.status)),
        Err(e) => fail(out, "no_response", "/query", e),
    }
    // column endpoints: JSON
    let check_json_cols = |out: &mut CaseOut, ep: &str, j: &J| {
        let names: Vec<String> = j["colnames"].as_array().map(|a| a.iter().filter_map(|x| x.as_str().map(|s| s.to_string())).collect()).unwrap_or_default();
        if names != emb.colnames {
            fail(out, "colnames_differ", ep, format!("HTTP {:?} embedded {:?}", names, emb.colnames));
            return;
        }
        for (name, col) in &emb.columns {
            let want = json_cells(col);
            let got = match &j["cols"][name] {
                J::Array(a) => a.clone(),
                J::Number(n) => vec![J::Null; n.as_u64().unwrap_or(0) as usize], // Null(n) is sent as its length
                _ => vec![],
            };
            if got.len() != want.len() || got.iter().zip(want.iter()).any(|(g, w)| !json_eq(g, w)) {
                let pos = got.iter().zip(want.iter()).position(|(g, w)| !json_eq(g, w));
                fail(out, "column_differs", ep, format!("column {}: {} vs {} cells, first difference at {:?}: HTTP {:?} embedded {:?}", name, got.len(), want.len(), pos, pos.map(|p| got[p].clone()), pos.map(|p| want[p].clone())));
                return;
            }
        }
        out.distinct(format!("{}|json|{}", ep, crate::qcheck::trunc(sql, 40)));
    };
    op.set("POST /query_cols");
    let r = http.post("/query_cols", "application/json", &body);
    op.set("");
    out.eval(1);
    match r {
        Ok(resp) if resp.status == 200 => match serde_json::from_slice::<J>(&resp.body) {
            Ok(j) => check_json_cols(out, "/query_cols", &j),
            Err(e) => fail(out, "bad_json", "/query_cols", format!("{}", e)),
        },
        Ok(resp) => fail(out, "unexpected_status", "/query_cols", format!("status {}", resp.status)),
        Err(e) => fail(out, "no_response", "/query_cols", e),
    }
    let mbody = serde_json::to_vec(&MultiQueryRequest { queries: vec![sql.to_string(), "SELECT COUNT(0) FROM t".to_string()], encoding_opts: None }).unwrap();
    op.set("POST /multi_query_cols json");
    let r = http.post("/multi_query_cols", "application/json", &mbody);
    op.set("");
    out.eval(1);
    match r {
        Ok(resp) if resp.status == 200 => match serde_json::from_slice::<J>(&resp.body) {
            Ok(j) => match j.as_array() {
                Some(a) if a.len() == 2 => check_json_cols(out, "/multi_query_cols", &a[0]),
                _ => fail(out, "response_count", "/multi_query_cols", "expected two results".into()),
            },
            Err(e) => fail(out, "bad_json", "/multi_query_cols", format!("{}", e)),
        },
        Ok(resp) => fail(out, "unexpected_status", "/multi_query_cols", format!("status {}", resp.status)),
        Err(e) => fail(out, "no_response", "/multi_query_cols", e),
    }
    // binary: plain, xor, xor + mantissa (+ full precision for one column)
    // columns that carry floats: dense float columns and nullable ones (which arrive as Mixed float+NULL)
    let float_cols: Vec<String> = emb
        .columns
        .iter()
        .filter(|(_, c)| match c {
            BasicTypeColumn::Float(_) => true,
            BasicTypeColumn::Mixed(xs) => xs.iter().any(|v| matches!(crate::drive::rawval(v), V::Float(_))),
            _ => false,
        })
        .map(|(n, _)| n.clone())
        .collect();
    let mantissa = *rng.pick(&[0u32, 3, 10, 23, 52]);
    // every second float-carrying column is requested at full precision (random phase), the others reduced
    let phase = rng.below(2);
    let full: HashSet<String> = float_cols.iter().enumerate().filter(|(i, _)| i % 2 == phase).map(|(_, n)| n.clone()).collect();
    for n in &full {
        let nullable = emb.columns.iter().any(|(cn, c)| cn == n && matches!(c, BasicTypeColumn::Mixed(_)));
        out.set("full_precision_column_kinds", if nullable { "nullable_float" } else { "dense_float" }.to_string());
    }
    for (label, opts) in [
        ("binary", EncodingOpts { xor_float_compression: false, mantissa: None, full_precision_cols: HashSet::new() }),
        ("binary+xor", EncodingOpts { xor_float_compression: true, mantissa: None, full_precision_cols: HashSet::new() }),
        ("binary+xor+mantissa", EncodingOpts { xor_float_compression: true, mantissa: Some(mantissa), full_precision_cols: full.clone() }),
    ] {
        let reduced = opts.mantissa;
        let fullp = opts.full_precision_cols.clone();
        let mbody = serde_json::to_vec(&MultiQueryRequest { queries: vec![sql.to_string()], encoding_opts: Some(opts) }).unwrap();
        op.set("POST /multi_query_cols binary");
        let r = http.post("/multi_query_cols", "application/json", &mbody);
        op.set("");
        out.eval(1);
        let ep = format!("/multi_query_cols:{}", label);
        match r {
            Ok(resp) if resp.status == 200 => match MultiQueryResponse::deserialize(&resp.body) {
                Ok(m) if m.responses.len() == 1 => {
                    let got: BTreeMap<&String, &Column> = m.responses[0].columns.iter().collect();
                    let mut ok = true;
                    for (name, col) in &emb.columns {
                        let want = embedded_cells(col);
                        let cells = match got.get(name) {
                            Some(c) => match api_cells(c) {
                                Ok(v) => v,
                                Err(e) => {
                                    fail(out, "undecodable_column", &ep, format!("column {}: {}", name, e));
                                    ok = false;
                                    break;
                                }
                            },
                            None => {
                                fail(out, "column_missing", &ep, format!("column {} missing from the binary response ({:?})", name, got.keys().collect::<Vec<_>>()));
                                ok = false;
                                break;
                            }
                        };
                        let keep: u64 = match reduced {
                            Some(m) if !fullp.contains(name) => if m == 0 { 0xfff0_0000_0000_0000 } else { !((1u64 << (52 - m)) - 1) },
                            _ => u64::MAX,
                        };
                        let same = cells.len() == want.len()
                            && cells.iter().zip(want.iter()).all(|(g, w)| match (g, w) {
                                (V::Float(a), V::Float(b)) => (a.to_bits() & keep) == (b.to_bits() & keep) || (a.is_nan() && b.is_nan()),
                                (V::Null, V::Float(b)) => b.to_bits() == crate::model::F64_NULL_BITS || b.is_nan(),
                                // with a reduced mantissa the NULL marker (a NaN) keeps only its leading bits
                                (V::Float(a), V::Null) => keep != u64::MAX && (a.to_bits() & keep) == (crate::model::F64_NULL_BITS & keep),
                                _ => g == w,
                            });
                        if !same {
                            let pos = cells.iter().zip(want.iter()).position(|(g, w)| g != w);
                            let pos = cells.iter().zip(want.iter()).position(|(g, w)| match (g, w) {
                                (V::Float(a), V::Float(b)) => (a.to_bits() & keep) != (b.to_bits() & keep) && !(a.is_nan() && b.is_nan()),
                                (V::Null, V::Float(b)) => !(b.to_bits() == crate::model::F64_NULL_BITS || b.is_nan()),
                                (V::Float(a), V::Null) => !(keep != u64::MAX && (a.to_bits() & keep) == (crate::model::F64_NULL_BITS & keep)),
                                _ => g != w,
                            });
                            fail(out, "column_differs", &ep, format!("column {} (mantissa {:?}, full precision {}): {} vs {} cells; first difference at {:?}: HTTP {:?} embedded {:?}", name, reduced, fullp.contains(name), cells.len(), want.len(), pos, pos.map(|p| cells[p].short()), pos.map(|p| want[p].short())));
                            ok = false;
                            break;
                        }
                    }
                    if ok {
                        out.distinct(format!("{}|{}", ep, crate::qcheck::trunc(sql, 40)));
                        for (_, c) in &emb.columns {
                            out.set("embedded_column_kinds_compared", match c { BasicTypeColumn::Int(_) => "Int", BasicTypeColumn::Float(_) => "Float", BasicTypeColumn::String(_) => "String", BasicTypeColumn::Null(_) => "Null", BasicTypeColumn::Mixed(_) => "Mixed" }.to_string());
                        }
                    }
                }
                Ok(m) => fail(out, "response_count", &ep, format!("{} responses", m.responses.len())),
                Err(e) => fail(out, "undecodable_response", &ep, format!("{}", e)),
            },
            Ok(resp) => fail(out, "unexpected_status", &ep, format!("status {} {}", resp.status, String::from_utf8_lossy(&resp.body).chars().take(120).collect::<String>())),
            Err(e) => fail(out, "no_response", &ep, e),
        }
    }
}

pub fn run(ctx: &mut Ctx) {
    let n = ctx.pick(32u64, 1500);
    for i in 0..n {
        if i >= 32 && ctx.out_of_time() {
            break;
        }
        let id = format!("http-{}", i);
        if !ctx.take(&id) {
            continue;
        }
        let nconn = [1usize, 2, 8][(i % 3) as usize];
        let seed = ctx.seed;
        let idc = id.clone();
        ctx.run(&id, "http", json!({"connections": nconn}), move |out, op| run_case(idc, seed, nconn, out, op));
    }
}
