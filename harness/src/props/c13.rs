//! C13 — columns may come and go; the catalogue lists each exactly once.
use serde_json::json;

use crate::ctx::Ctx;
use crate::drive::{DbCfg, Via};
use crate::guard::OpCell;
use crate::hist::{history_string, Op, World};
use crate::model::{Batch, ColRepr, V};
use crate::report::{CaseOut, Failure};
use crate::rng::Rng;

pub fn name_pool() -> Vec<String> {
    vec![
        "a".into(),
        "A".into(),
        "b".into(),
        "ab".into(),
        "0first".into(),
        "zzz_last".into(),
        "ä_umlaut".into(),
        "列".into(),
        "column_name".into(),
        "column_names".into(),
        "timestamp".into(),
        "name".into(),
        "with space".into(),
        "UPPER".into(),
        "upper".into(),
        format!("long_{}", "x".repeat(70)),
        format!("long_{}", "x".repeat(69)) + "y",
        "dot.ted".into(),
        "_underscore".into(),
    ]
}

fn mk_batch(table: &str, req: u64, rows: usize, names: &[String], rng: &mut Rng) -> Batch {
    let mut cols = vec![("uid".to_string(), ColRepr::I64((0..rows as i64).map(|r| req as i64 * 1000 + r).collect()))];
    for n in names {
        let vals: Vec<V> = (0..rows)
            .map(|r| match (n.len() + r) % 4 {
                0 if rng.chance(0.5) => V::Null,
                _ => match n.len() % 3 {
                    0 => V::Int(req as i64 * 10 + r as i64),
                    1 => V::Str(format!("{}-{}", req, r % 2)),
                    _ => V::Float(req as f64 + 0.5),
                },
            })
            .collect();
        let r = ColRepr::from_logical(&vals);
        if matches!(r, ColRepr::Empty) {
            continue;
        }
        cols.push((n.clone(), r));
    }
    Batch { table: table.to_string(), rows, cols }
}

fn run_history(id: String, seed: u64, len: usize, cfg: DbCfg, out: &mut CaseOut, op: &OpCell) {
    let mut rng = Rng::derive(seed, &id, 0);
    let pool = name_pool();
    let tables = ["t1", "T1", "other"];
    let ntables = 1 + rng.below(3);
    let mut w = World::open(&cfg, Via::Wire, op);
    let mut ops: Vec<Op> = Vec::new();
    let mut req = 0u64;
    let mut since_restart_no_query = false;
    let case = |ops: &Vec<Op>| json!({"history": history_string(ops), "cfg": cfg.to_json(),
        "columns_per_ingest": ops.iter().filter_map(|o| if let Op::Ingest(bs) = o { Some(bs.iter().map(|b| b.cols.iter().map(|c| c.0.clone()).collect::<Vec<_>>()).collect::<Vec<_>>()) } else { None }).collect::<Vec<_>>()});
    for step in 0..len {
        let k = if step == 0 { 0 } else { *rng.pick(&[0usize, 0, 0, 0, 1, 1, 2]) };
        let o = match k {
            0 => {
                req += 1;
                let t = tables[rng.below(ntables)];
                let mut names: Vec<String> = pool.iter().filter(|_| rng.chance(0.3)).cloned().collect();
                if names.is_empty() {
                    names.push(rng.pick(&pool).clone());
                }
                let rows = 1 + rng.below(5);
                // how the new names become known
                let known: Vec<&String> = w.model.get(t).map(|m| m.cols.keys().collect()).unwrap_or_default();
                let new_names = names.iter().filter(|n| !known.contains(n)).count();
                if new_names > 0 {
                    out.count(if since_restart_no_query { "new_name_first_seen_after_restart_before_any_query" } else { "new_name_first_seen_in_buffer" }, new_names as u64);
                }
                Op::Ingest(vec![mk_batch(t, req, rows, &names, &mut rng)])
            }
            1 => Op::Flush,
            _ => Op::Restart { quiescent: false },
        };
        w.apply(&o);
        if matches!(o, Op::Restart { .. }) {
            since_restart_no_query = true;
            out.count("restarts", 1);
        }
        if matches!(o, Op::Flush) {
            out.count("flushes", 1);
        }
        ops.push(o.clone());
        // after a restart, check only sometimes so that ingestion hits the lazily initialised name set first
        let check_now = !(since_restart_no_query && rng.chance(0.6));
        if check_now || step + 1 == len {
            since_restart_no_query = false;
            let mut mism = w.check_tables();
            mism.extend(w.check_catalogue());
            out.eval(2 * w.model.len() as u64 + 1);
            // search_column_names must agree with the model
            for (t, lt) in &w.model {
                let r = futures::executor::block_on(w.db.handle().search_column_names(t, ".*"));
                out.eval(1);
                match r {
                    Ok(mut names) => {
                        names.sort();
                        let want: Vec<String> = lt.cols.keys().cloned().collect();
                        if names != want {
                            out.fail(Failure::new("catalogue", "search_column_names", "mismatch", format!("after '{}': search_column_names({}) = {:?}, ingested {:?}", history_string(&ops), t, names, want), case(&ops)));
                        }
                    }
                    Err(e) => out.fail(Failure::new("catalogue", "search_column_names", "error", format!("after '{}': search_column_names({}) failed: {}", history_string(&ops), t, e), case(&ops))),
                }
            }
            for m in mism {
                out.fail(Failure::new(
                    "catalogue",
                    &m.mode,
                    &format!("table_kind={}", if m.table.starts_with("_meta") { "catalogue" } else { "user" }),
                    format!("after '{}': table {}: {}", history_string(&ops), m.table, m.detail),
                    case(&ops),
                ));
            }
        }
    }
    let ncols: usize = w.model.values().map(|t| t.cols.len()).sum();
    out.distinct(format!("{}|tables={}|cols={}", history_string(&ops).replace(|c: char| c.is_ascii_digit(), ""), w.model.len(), ncols));
    if id.ends_with('1') {
        out.sample(json!({"history": history_string(&ops), "columns": w.model.iter().map(|(k, t)| (k.clone(), t.cols.keys().cloned().collect::<Vec<_>>())).collect::<Vec<_>>()}));
    }
}

pub fn run(ctx: &mut Ctx) {
    let n = ctx.pick(640u64, 30000);
    for i in 0..n {
        if i >= 640 && ctx.out_of_time() {
            break;
        }
        let id = format!("cols-{}", i);
        if !ctx.take(&id) {
            continue;
        }
        let mut rng = Rng::derive(ctx.seed, &id, 3);
        let cfg = DbCfg {
            disk: true,
            partition_combine_factor: *rng.pick(&[1u64, 1, 0, 4]),
            max_partition_size_bytes: *rng.pick(&[1u64, 200, 8 << 20]),
            ..DbCfg::default()
        };
        let len = 4 + rng.below(ctx.pick(10, 25));
        let seed = ctx.seed;
        let idc = id.clone();
        ctx.run(&id, "history", json!({"len": len, "cfg": cfg.to_json()}), move |out, op| run_history(idc, seed, len, cfg, out, op));
    }
}
