//! C07 — flush, compaction and eviction never change table content.
use std::collections::BTreeMap;

use serde_json::json;

use crate::ctx::Ctx;
use crate::drive::{DbCfg, QErr, QOut, Via};
use crate::gen;
use crate::guard::OpCell;
use crate::hist::{history_string, Op, World};
use crate::model::{Batch, ColRepr, V};
use crate::report::{CaseOut, Failure};
use crate::rng::Rng;

struct ColPlan {
    name: String,
    kind: &'static str,
    class: &'static str,
    null_p: f64,
    /// batches (by index modulo) in which the column is withheld
    absent_mod: usize,
}

fn plan_columns(rng: &mut Rng, ncols: usize) -> Vec<ColPlan> {
    let classes = gen::all_classes();
    let mut v = Vec::new();
    for i in 0..ncols {
        let (kind, class) = *rng.pick(&classes);
        v.push(ColPlan {
            name: format!("c{:02}_{}", i, class),
            kind,
            class,
            null_p: *rng.pick(&[0.0, 0.0, 0.2, 0.6, 1.0]),
            absent_mod: *rng.pick(&[0usize, 0, 0, 2, 3]),
        });
    }
    v
}

fn mk_batch(plan: &[ColPlan], table: &str, batch_no: usize, next_id: i64, rows: usize, rng: &mut Rng) -> Batch {
    let mut cols = vec![("id".to_string(), ColRepr::I64((next_id..next_id + rows as i64).collect()))];
    for p in plan {
        if p.absent_mod > 0 && batch_no % p.absent_mod == 0 {
            continue;
        }
        let mut vals = gen::gen_column(p.kind, p.class, rows, rng);
        for v in vals.iter_mut() {
            if p.null_p > 0.0 && rng.chance(p.null_p) {
                *v = V::Null;
            }
        }
        let r = ColRepr::from_logical(&vals);
        if matches!(r, ColRepr::Empty) && rng.chance(0.5) {
            continue;
        }
        cols.push((p.name.clone(), r));
    }
    Batch { table: table.to_string(), rows, cols }
}

/// Probe battery whose answers must be identical immediately before and after a maintenance step.
fn battery(w: &World, tables: &[String]) -> Vec<(String, Result<QOut, QErr>)> {
    let mut v = Vec::new();
    for t in tables {
        for sql in [
            format!("SELECT * FROM \"{}\"", t),
            format!("SELECT COUNT(0), SUM(id), MIN(id), MAX(id) FROM \"{}\"", t),
            format!("SELECT id FROM \"{}\" WHERE id >= 3", t),
            format!("SELECT id FROM \"{}\" ORDER BY id DESC LIMIT 5", t),
        ] {
            let r = w.db.query_opts(&sql, false, false);
            v.push((sql, r));
        }
    }
    v
}

fn same_answer(a: &Result<QOut, QErr>, b: &Result<QOut, QErr>) -> Option<String> {
    match (a, b) {
        (Ok(x), Ok(y)) => {
            let mut xc = x.cols.clone();
            let mut yc = y.cols.clone();
            xc.sort_by(|p, q| p.0.cmp(&q.0));
            yc.sort_by(|p, q| p.0.cmp(&q.0));
            if xc.len() != yc.len() {
                return Some(format!("{} columns before, {} after", xc.len(), yc.len()));
            }
            for (p, q) in xc.iter().zip(yc.iter()) {
                if p.0 != q.0 {
                    return Some(format!("column {} before, {} after", p.0, q.0));
                }
                if p.1.len() != q.1.len() {
                    return Some(format!("column {}: {} rows before, {} after", p.0, p.1.len(), q.1.len()));
                }
                for (i, (u, v)) in p.1.iter().zip(q.1.iter()).enumerate() {
                    let eq = u == v || matches!((u, v), (V::Float(a), V::Float(b)) if a.is_nan() && b.is_nan());
                    if !eq {
                        return Some(format!("column {} row {}: {} before, {} after", p.0, i, u.short(), v.short()));
                    }
                }
            }
            None
        }
        (Err(x), Err(y)) if x.kind == y.kind => None,
        (Ok(_), Err(e)) => Some(format!("answered before, {} after: {}", e.kind, e.msg)),
        (Err(e), Ok(_)) => Some(format!("{} before ({}), answered after", e.kind, e.msg)),
        (Err(x), Err(y)) => Some(format!("{} before, {} after", x.kind, y.kind)),
    }
}

fn catalogue_ids(w: &World) -> BTreeMap<String, Vec<(u64, usize, usize)>> {
    let mut m: BTreeMap<String, Vec<(u64, usize, usize)>> = BTreeMap::new();
    if let Some(cat) = w.db.handle().verif_catalogue() {
        for p in cat {
            m.entry(p.table).or_default().push((p.id, p.offset, p.len));
        }
    }
    for v in m.values_mut() {
        v.sort();
    }
    m
}

fn run_history(id: String, seed: u64, len: usize, cfg: DbCfg, out: &mut CaseOut, op: &OpCell) {
    let mut rng = Rng::derive(seed, &id, 0);
    let tables: Vec<String> = if rng.chance(0.3) { vec!["t".into(), "u".into()] } else { vec!["t".into()] };
    let plans: BTreeMap<String, Vec<ColPlan>> = tables.iter().map(|t| { let k = 3 + rng.below(6); (t.clone(), plan_columns(&mut rng, k)) }).collect();
    let mut next_id: BTreeMap<String, i64> = tables.iter().map(|t| (t.clone(), 0)).collect();
    let mut batch_no: BTreeMap<String, usize> = tables.iter().map(|t| (t.clone(), 0)).collect();
    let mut w = World::open(&cfg, Via::Wire, op);
    let mut ops: Vec<Op> = Vec::new();
    let case = |ops: &Vec<Op>| json!({"history": history_string(ops), "cfg": cfg.to_json(),
        "columns": plans.iter().map(|(t, p)| (t.clone(), p.iter().map(|c| format!("{}:{}/{} null_p={} absent_mod={}", c.name, c.kind, c.class, c.null_p, c.absent_mod)).collect::<Vec<_>>())).collect::<BTreeMap<_, _>>()});
    for step in 0..len {
        let o = if step == 0 {
            0
        } else {
            *rng.pick(&[0usize, 0, 0, 1, 1, 2, 3])
        };
        let o = match o {
            0 => {
                let t = rng.pick(&tables).clone();
                let rows = *rng.pick(&[1usize, 3, 8, 9, 40, 130]);
                let b = mk_batch(&plans[&t], &t, batch_no[&t], next_id[&t], rows, &mut rng);
                *next_id.get_mut(&t).unwrap() += rows as i64;
                *batch_no.get_mut(&t).unwrap() += 1;
                Op::Ingest(vec![b])
            }
            1 => Op::Flush,
            2 => Op::Evict,
            _ => Op::Restart { quiescent: false },
        };
        let maintenance = !matches!(o, Op::Ingest(_));
        let before = if maintenance { Some((battery(&w, &tables), catalogue_ids(&w))) } else { None };
        w.apply(&o);
        ops.push(o.clone());
        if let Some((before, cat_before)) = before {
            let after = battery(&w, &tables);
            let cat_after = catalogue_ids(&w);
            out.eval(after.len() as u64);
            // maintenance coverage: what did this step really do?
            let mut kind = o.name().to_string();
            if matches!(o, Op::Flush) {
                for (t, parts) in &cat_after {
                    let old = cat_before.get(t).cloned().unwrap_or_default();
                    let gone = old.iter().filter(|p| !parts.contains(p)).count();
                    let new = parts.iter().filter(|p| !old.contains(p)).count();
                    if gone > 0 {
                        kind = format!("flush+compaction(arity={})", gone.min(6));
                        out.count("compactions", 1);
                        out.set("merge_arity", format!("{}", gone));
                    } else if new > 0 {
                        out.count("new_partitions", 1);
                    }
                }
            }
            if matches!(o, Op::Evict) && w.evicted_bytes > 0 {
                out.count("evictions_with_effect", 1);
            }
            let cold = after.iter().any(|(_, r)| matches!(r, Ok(q) if q.disk_read_bytes > 0));
            if cold {
                out.count("cold_reads_after_step", 1);
            }
            for ((sql, b), (_, a)) in before.iter().zip(after.iter()) {
                if let Some(diff) = same_answer(b, a) {
                    let mode = if diff.contains("rows before") { "rowcount" } else if diff.contains("NULL before") { "null->value" } else if diff.contains("NULL after") { "value->null" } else if diff.contains("answered before") { "error_after" } else { "changed" };
                    out.fail(Failure::new(
                        "maintenance",
                        mode,
                        &format!("step={}", o.name()),
                        format!("after '{}' ({}): {} :: {}", history_string(&ops), kind, sql, diff),
                        case(&ops),
                    ));
                    break;
                }
            }
            out.distinct(format!("{}|{}|lz4={}|factor={}|subpart={}|tables={}|prefix={}", kind, if cold { "cold" } else { "warm" }, cfg.mem_lz4, cfg.partition_combine_factor, cfg.max_partition_size_bytes, tables.len(), ops.iter().rev().skip(1).take(2).map(|o| o.name()).collect::<Vec<_>>().join(">")));
        }
        // the model is the second oracle (catches a change that an ingest step introduced, or drift both probes share)
        let mism = w.check_tables();
        out.eval(w.model.len() as u64);
        for m in mism {
            out.fail(Failure::new(
                "maintenance",
                &m.mode,
                &format!("vs_model|step={}", o.name()),
                format!("after '{}': table {}: {}", history_string(&ops), m.table, m.detail),
                case(&ops),
            ));
        }
    }
    for t in &tables {
        for (_, sigs) in w.db.codec_signatures(t) {
            for s in sigs {
                out.set("codec_signatures", s);
            }
        }
    }
    if id.ends_with('3') {
        out.sample(json!({"history": history_string(&ops), "cfg": {"combine_factor": cfg.partition_combine_factor, "mem_lz4": cfg.mem_lz4}}));
    }
}

/// Compaction grid (added after seeds C01d / C07d, which the random histories missed): one table whose columns enumerate
/// every sequence of per-partition column modes over three consecutive partitions - D dense values, N values with NULLs,
/// X column absent from the batch, E column present but empty (all NULL), T values followed by >= 8 trailing NULLs - for
/// int, float and string columns (5^3 x 3 = 375 columns), ingested as 6 batches with one flush each under
/// `partition_combine_factor = 2`, so that partitions 1-3 and then 4-6 are merged three at a time (a ballast column keeps
/// the partition sizes equal, which fixes the compaction plan). Row-count profiles put the chunk boundaries on and off
/// multiples of 8 (null-map byte boundaries). After every step the whole table is compared with the model.
const CGRID_MODES: [char; 5] = ['D', 'N', 'X', 'E', 'T'];
const CGRID_PROFILES: [[usize; 3]; 6] = [[8, 8, 8], [16, 8, 24], [64, 64, 64], [9, 7, 16], [8, 16, 8], [12, 12, 16]];

fn cgrid_value(kind: &str, global_row: usize, col: usize) -> V {
    match kind {
        "int" => V::Int(((global_row * 7 + col) % 200) as i64 + 1),
        "float" => V::Float(global_row as f64 + 0.5 + col as f64),
        _ => V::Str(format!("s{}", (global_row + col) % 5)),
    }
}

fn cgrid_cells(kind: &str, mode: char, rows: usize, first_row: usize, col: usize) -> Option<Vec<V>> {
    let val = |r: usize| cgrid_value(kind, first_row + r, col);
    match mode {
        'X' => None,
        'E' => Some(vec![V::Null; rows]),
        'D' => Some((0..rows).map(val).collect()),
        'N' => Some((0..rows).map(|r| if (r + col) % 3 == 1 { V::Null } else { val(r) }).collect()),
        _ => {
            // values, then at least 8 trailing NULLs when the chunk is long enough (otherwise one value, then NULLs)
            let keep = if rows > 8 { rows - 8 } else { 1 };
            Some((0..rows).map(|r| if r < keep { val(r) } else { V::Null }).collect())
        }
    }
}

fn run_cgrid(profile: usize, lz4: bool, five_way: bool, seed: u64, out: &mut CaseOut, op: &OpCell) {
    let rows_of = CGRID_PROFILES[profile];
    // ballast bytes per batch, chosen so that the size rule of plan_compaction merges exactly partitions 1-3 and then 4-6
    // (factor 2), or all five partitions at the fifth flush (factor 4)
    let ballast: &[usize] = if five_way { &[1_150_000, 1_125_000, 1_100_000, 1_075_000, 1_050_000] } else { &[1_150_000, 1_050_000, 950_000, 950_000, 850_000, 750_000] };
    let factor = if five_way { 4 } else { 2 };
    let cfg = DbCfg { disk: true, mem_lz4: lz4, partition_combine_factor: factor, ..DbCfg::default() };
    let mut w = World::open(&cfg, Via::Wire, op);
    let mut rng = Rng::derive(seed, "cgrid", profile as u64);
    let mut cols: Vec<(String, &'static str, [char; 3])> = Vec::new();
    for kind in ["int", "float", "str"] {
        for a in CGRID_MODES {
            for b in CGRID_MODES {
                for c in CGRID_MODES {
                    cols.push((format!("{}_{}{}{}", &kind[..1], a, b, c), kind, [a, b, c]));
                }
            }
        }
    }
    let case = json!({"profile": rows_of, "mem_lz4": lz4, "combine_factor": factor, "columns": "kind_<mode per partition>: D dense, N nullable, X absent, E empty, T trailing NULLs"});
    let mut first_row = 0usize;
    let mut ops: Vec<Op> = Vec::new();
    let mut merges3 = 0u64;
    for b in 0..ballast.len() {
        let rows = rows_of[b % 3];
        let mut bc = vec![("id".to_string(), ColRepr::I64((first_row as i64..(first_row + rows) as i64).collect()))];
        // equal partition sizes whatever the row count: the ballast dominates the byte size of every partition
        let per_row = ballast[b] / rows;
        bc.push(("zz_ballast".to_string(), ColRepr::from_logical(&(0..rows).map(|_| V::Str((0..per_row / 16).map(|_| format!("{:016x}", rng.next_u64())).collect::<String>())).collect::<Vec<_>>())));
        for (ci, (name, kind, modes)) in cols.iter().enumerate() {
            if let Some(cells) = cgrid_cells(kind, modes[b % 3], rows, first_row, ci) {
                bc.push((name.clone(), ColRepr::from_logical(&cells)));
            }
        }
        first_row += rows;
        for o in [Op::Ingest(vec![Batch { table: "g".into(), rows, cols: bc }]), Op::Flush] {
            let cat_before = catalogue_ids(&w);
            w.apply(&o);
            ops.push(o.clone());
            if matches!(o, Op::Flush) {
                let cat_after = catalogue_ids(&w);
                let old = cat_before.get("g").cloned().unwrap_or_default();
                let now = cat_after.get("g").cloned().unwrap_or_default();
                // arity of a merge = replaced partitions + the partition this flush created (it is merged before it is ever listed)
                let mut gone = 0;
                for np in now.iter().filter(|p| !old.contains(p)) {
                    let inside: Vec<&(u64, usize, usize)> = old.iter().filter(|o| o.1 >= np.1 && o.1 + o.2 <= np.1 + np.2).collect();
                    if !inside.is_empty() {
                        let covered: usize = inside.iter().map(|o| o.2).sum();
                        gone = inside.len() + if np.2 > covered { 1 } else { 0 };
                    }
                }
                if gone >= 3 {
                    merges3 += 1;
                }
                if gone > 0 {
                    out.set("merge_arity", format!("cgrid:{}", gone));
                    out.count("compactions", 1);
                }
            }
            out.eval(1);
            for m in w.check_tables() {
                out.fail(Failure::new("maintenance", &m.mode, &format!("cgrid|step={}", o.name()), format!("compaction grid {:?} lz4={} after '{}': {}", rows_of, lz4, history_string(&ops), m.detail), case.clone()));
                return;
            }
        }
    }
    out.count("cgrid_merges_of_3_or_more", merges3);
    // cold read of the merged partitions, and after a restart
    for o in [Op::Evict, Op::Restart { quiescent: false }] {
        w.apply(&o);
        ops.push(o.clone());
        out.eval(1);
        for m in w.check_tables() {
            out.fail(Failure::new("maintenance", &m.mode, &format!("cgrid|step={}", o.name()), format!("compaction grid {:?} lz4={} after '{}': {}", rows_of, lz4, history_string(&ops), m.detail), case.clone()));
            return;
        }
    }
    out.distinct(format!("cgrid|profile={:?}|lz4={}|factor={}|merges3={}", rows_of, lz4, factor, merges3));
}

pub fn run(ctx: &mut Ctx) {
    for profile in 0..CGRID_PROFILES.len() {
        for (lz4, five_way) in [(false, false), (true, false), (false, true), (true, true)] {
            let id = format!("cgrid-{}-{}-{}", profile, lz4, if five_way { 5 } else { 3 });
            if !ctx.take(&id) {
                continue;
            }
            let seed = ctx.seed;
            ctx.run(&id, "compaction-grid", json!({"profile": CGRID_PROFILES[profile], "mem_lz4": lz4, "merge_arity": if five_way { 5 } else { 3 }}), move |out, op| run_cgrid(profile, lz4, five_way, seed, out, op));
        }
    }
    let n = ctx.pick(1280u64, 40000);
    for i in 0..n {
        if i >= 1280 && ctx.out_of_time() {
            break;
        }
        let id = format!("hist-{}", i);
        if !ctx.take(&id) {
            continue;
        }
        let mut rng = Rng::derive(ctx.seed, &id, 9);
        let cfg = DbCfg {
            disk: true,
            mem_lz4: i % 2 == 0,
            partition_combine_factor: [0u64, 1, 2, 4][(i % 4) as usize],
            max_partition_size_bytes: *rng.pick(&[1u64, 4096, 8 << 20]),
            mem_size_limit_tables: if i % 16 == 5 { 2000 } else { 8 << 30 },
            io_threads: *rng.pick(&[1usize, 4]),
            wal_flush_compaction_threads: *rng.pick(&[1usize, 3]),
            ..DbCfg::default()
        };
        let len = 4 + rng.below(ctx.pick(9, 27));
        let seed = ctx.seed;
        let idc = id.clone();
        ctx.run(&id, "history", json!({"len": len, "cfg": cfg.to_json()}), move |out, op| run_history(idc, seed, len, cfg, out, op));
    }
}
