//! C10 — a concurrent query sees a clean prefix of every table.
//!
//! Every ingestion request r of a table carries uids r*2^20+row, so a query answer identifies exactly which
//! requests it observed. Histories are recorded at the client boundary (call before invoke, return after reply,
//! one monotonic clock) and checked offline: every observation must be concat(requests 1..j) with
//! acked_before(call) <= j <= started_before(return), and observations must be prefix-ordered in real time.
use std::collections::BTreeMap;
use std::sync::atomic::{AtomicBool, AtomicU64, AtomicUsize, Ordering};
use std::sync::{Arc, Mutex};
use std::time::{Duration, Instant};

use serde_json::json;

use crate::ctx::Ctx;
use crate::drive::{event_buffer, poll_to_completion, qerr, qout, Db, DbCfg, QErr, QOut, Via};
use crate::guard::OpCell;
use crate::model::{Batch, ColRepr, V};
use crate::report::{CaseOut, Failure};
use crate::rng::Rng;

const UID_SHIFT: i64 = 1 << 20;

fn mk_req(table: &str, req: usize, rows: usize) -> Batch {
    let uid: Vec<i64> = (0..rows as i64).map(|r| req as i64 * UID_SHIFT + r).collect();
    let mut cols = vec![
        ("uid".to_string(), ColRepr::I64(uid)),
        ("s".to_string(), ColRepr::Str((0..rows).map(|r| format!("r{}-{}", req, r % 2)).collect())),
    ];
    if req % 2 == 0 {
        cols.push(("sometimes".to_string(), ColRepr::Dense((0..rows).map(|r| r as f64 + 0.5).collect())));
    }
    Batch { table: table.to_string(), rows, cols }
}

/// Per-table record of ingestion requests (one writer thread per table => the request order is known).
#[derive(Default)]
struct TableHist {
    /// rows of request i (1-based index i-1)
    rows: Vec<usize>,
    /// monotonic ns at which request i was started / acknowledged
    started: Vec<u64>,
    acked: Vec<Option<u64>>,
}

#[derive(Clone, Debug)]
struct Obs {
    table: String,
    kind: &'static str,
    sql: String,
    call: u64,
    ret: u64,
    result: Result<QOut, QErr>,
    thread: usize,
}

struct Shared {
    t0: Instant,
    tables: Mutex<BTreeMap<String, TableHist>>,
    obs: Mutex<Vec<Obs>>,
}

impl Shared {
    fn now(&self) -> u64 {
        self.t0.elapsed().as_nanos() as u64
    }
    fn ingest(&self, db: &locustdb::LocustDB, table: &str, rows: usize) {
        let req = {
            let mut g = self.tables.lock().unwrap();
            let h = g.entry(table.to_string()).or_default();
            h.rows.push(rows);
            h.started.push(self.now());
            h.acked.push(None);
            h.rows.len()
        };
        let b = mk_req(table, req, rows);
        poll_to_completion(db.ingest_efficient(event_buffer(&[b], Via::Wire)));
        let t = self.now();
        self.tables.lock().unwrap().get_mut(table).unwrap().acked[req - 1] = Some(t);
    }
    fn query(&self, db: &locustdb::LocustDB, table: &str, kind: &'static str, sql: String, thread: usize) {
        let call = self.now();
        let r = futures::executor::block_on(db.run_query(&sql, false, false, vec![]));
        let ret = self.now();
        let result = match r {
            Ok(o) => Ok(qout(&o)),
            Err(e) => {
                let e = qerr(&e);
                if e.kind == "Canceled" {
                    db.recover();
                }
                Err(e)
            }
        };
        self.obs.lock().unwrap().push(Obs { table: table.to_string(), kind, sql, call, ret, result, thread });
    }
    fn battery(&self, db: &locustdb::LocustDB, table: &str, thread: usize) {
        self.query(db, table, "uids", format!("SELECT uid FROM \"{}\"", table), thread);
        self.query(db, table, "agg", format!("SELECT COUNT(0), SUM(uid), MIN(uid), MAX(uid) FROM \"{}\"", table), thread);
        self.query(db, table, "absent", format!("SELECT uid, never_ingested FROM \"{}\"", table), thread);
        self.query(db, table, "partial", format!("SELECT uid, sometimes FROM \"{}\"", table), thread);
        self.query(db, table, "filter", format!("SELECT uid FROM \"{}\" WHERE uid >= {}", table, 2 * UID_SHIFT), thread);
        self.query(db, table, "top", format!("SELECT uid FROM \"{}\" ORDER BY uid DESC LIMIT 3", table), thread);
        self.query(db, table, "strs", format!("SELECT uid, s FROM \"{}\"", table), thread);
    }
}

/// uids of concat(requests 1..j)
fn prefix_uids(h: &TableHist, j: usize) -> Vec<i64> {
    let mut v = Vec::new();
    for (i, rows) in h.rows.iter().take(j).enumerate() {
        for r in 0..*rows as i64 {
            v.push((i as i64 + 1) * UID_SHIFT + r);
        }
    }
    v
}

/// Which prefix does this answer correspond to? Err(description) if none.
fn observed_prefix(o: &Obs, h: &TableHist) -> Result<Vec<usize>, (String, String)> {
    let q = match &o.result {
        Ok(q) => q,
        Err(e) => return Err((format!("error:{}", e.kind), format!("query failed: {}", e.msg))),
    };
    let n = h.rows.len();
    let uids = |q: &QOut| -> Vec<i64> { q.col("uid").map(|c| c.iter().filter_map(|v| if let V::Int(i) = v { Some(*i) } else { None }).collect()).unwrap_or_default() };
    let classify = |got: &[i64], want_of: &dyn Fn(usize) -> Vec<i64>| -> Result<Vec<usize>, (String, String)> {
        // several prefixes may give the same answer (e.g. a filter that excludes the newest requests)
        let cands: Vec<usize> = (0..=n).filter(|j| want_of(*j) == got).collect();
        if !cands.is_empty() {
            return Ok(cands);
        }
        // diagnose: duplicate / missing in the middle / partial request / reordered
        let mut sorted = got.to_vec();
        sorted.sort();
        let dup = sorted.windows(2).any(|w| w[0] == w[1]);
        let full = want_of(n);
        let mode = if dup {
            "row_twice"
        } else if got.iter().any(|u| !full.contains(u)) {
            "unknown_row"
        } else {
            // a set of complete requests?
            let mut reqs: BTreeMap<i64, usize> = BTreeMap::new();
            for u in got {
                *reqs.entry(u / UID_SHIFT).or_default() += 1;
            }
            let partial = reqs.iter().any(|(r, c)| h.rows.get(*r as usize - 1).map(|x| x != c).unwrap_or(true));
            if partial {
                "request_partially_visible"
            } else if sorted != got {
                "reordered"
            } else {
                "hole_in_the_middle"
            }
        };
        Err((mode.to_string(), format!("{} uids returned, requests seen: {:?}", got.len(), {
            let mut r: Vec<i64> = got.iter().map(|u| u / UID_SHIFT).collect();
            r.dedup();
            r.truncate(12);
            r
        })))
    };
    match o.kind {
        "uids" | "absent" | "partial" | "strs" => {
            let got = uids(q);
            let j = classify(&got, &|j| prefix_uids(h, j))?;
            if o.kind == "absent" {
                if let Some(c) = q.col("never_ingested") {
                    if c.iter().any(|v| !v.is_null()) {
                        return Err(("absent_column_not_null".into(), "never_ingested has a non-NULL cell".into()));
                    }
                }
            }
            if o.kind == "strs" {
                // string cells point into column data while the answer is assembled: each must still be the one ingested
                match q.col("s") {
                    Some(c) => {
                        for (u, v) in got.iter().zip(c.iter()) {
                            let want = V::Str(format!("r{}-{}", u / UID_SHIFT, (u % UID_SHIFT) % 2));
                            if *v != want {
                                return Err(("cell_changed".into(), format!("uid {} has s={}, expected {}", u, v.short(), want.short())));
                            }
                        }
                    }
                    None if !got.is_empty() => return Err(("column_missing".into(), "column s missing from the answer".into())),
                    None => {}
                }
            }
            if o.kind == "partial" {
                if let Some(c) = q.col("sometimes") {
                    for (u, v) in got.iter().zip(c.iter()) {
                        let req = u / UID_SHIFT;
                        let want = if req % 2 == 0 { V::Float((u % UID_SHIFT) as f64 + 0.5) } else { V::Null };
                        if *v != want {
                            return Err(("cell_changed".into(), format!("uid {} has sometimes={}, expected {}", u, v.short(), want.short())));
                        }
                    }
                }
            }
            Ok(j)
        }
        "filter" => classify(&uids(q), &|j| prefix_uids(h, j).into_iter().filter(|u| *u >= 2 * UID_SHIFT).collect()),
        "top" => classify(&uids(q), &|j| {
            let mut v = prefix_uids(h, j);
            v.reverse();
            v.truncate(3);
            v
        }),
        "agg" => {
            let row: Vec<V> = q.cols.iter().map(|c| c.1.first().cloned().unwrap_or(V::Null)).collect();
            for j in 0..=n {
                let p = prefix_uids(h, j);
                let want: Vec<V> = if p.is_empty() {
                    vec![]
                } else {
                    vec![V::Int(p.len() as i64), V::Int(p.iter().sum()), V::Int(*p.iter().min().unwrap()), V::Int(*p.iter().max().unwrap())]
                };
                let empty_ok = p.is_empty() && (q.cols.iter().all(|c| c.1.is_empty()) || q.cols.is_empty());
                if empty_ok || (!p.is_empty() && row == want) {
                    return Ok(vec![j]);
                }
            }
            Err(("aggregate_matches_no_prefix".into(), format!("COUNT,SUM,MIN,MAX = {:?}", row.iter().map(|v| v.short()).collect::<Vec<_>>())))
        }
        _ => unreachable!(),
    }
}

/// Offline checker over the recorded history. Returns (#observations, #distinct prefixes seen, #observations strictly inside a flush).
fn check_history(sh: &Shared, out: &mut CaseOut, label: &str, case: &serde_json::Value, flush_windows: &[(u64, u64)]) -> (usize, usize, usize) {
    let tables = sh.tables.lock().unwrap();
    let mut obs = sh.obs.lock().unwrap().clone();
    obs.sort_by_key(|o| o.ret);
    let mut distinct = std::collections::BTreeSet::new();
    let mut inside = 0;
    let mut seen: Vec<(String, u64, u64, usize)> = Vec::new(); // table, call, ret, j
    let empty = TableHist::default();
    for o in &obs {
        let h = tables.get(&o.table).unwrap_or(&empty);
        out.eval(1);
        if flush_windows.iter().any(|(a, b)| o.call >= *a && o.ret <= *b) {
            inside += 1;
        }
        match observed_prefix(o, h) {
            Err((mode, detail)) => {
                // a table nobody had finished writing to when the query started may not exist yet
                let acked_before = h.acked.iter().filter(|a| matches!(a, Some(t) if *t < o.call)).count();
                if acked_before == 0 && mode.starts_with("error:NotImplemented") && detail.contains("does not exist") {
                    continue;
                }
                // a lost answer means a worker panicked; the panic monitor reports it with its site
                if mode == "error:Canceled" {
                    out.count("answers_lost_to_a_worker_panic", 1);
                    continue;
                }
                out.fail(Failure::new("prefix", &mode, &format!("{}|{}", o.kind, label), format!("{} :: {} (table {} has {} requests so far)", o.sql, detail, o.table, h.rows.len()), case.clone()));
            }
            Ok(cands) => {
                let jmin = *cands.first().unwrap();
                let jmax = *cands.last().unwrap();
                distinct.insert((o.table.clone(), jmax));
                let lo = h.acked.iter().filter(|a| matches!(a, Some(t) if *t < o.call)).count();
                // requests are acknowledged in order per table, so `lo` is a prefix length
                let hi = h.started.iter().filter(|t| **t < o.ret).count();
                if jmax < lo {
                    out.fail(Failure::new("prefix", "acknowledged_rows_missing", &format!("{}|{}", o.kind, label), format!("{} :: saw requests 1..{} although {} were acknowledged before the query started", o.sql, jmax, lo), case.clone()));
                } else if jmin > hi {
                    out.fail(Failure::new("prefix", "rows_from_the_future", &format!("{}|{}", o.kind, label), format!("{} :: saw requests 1..{} but only {} had been started when the query returned", o.sql, jmin, hi), case.clone()));
                }
                // prefix chain in real time: nothing that returned before this call may have seen more
                for (t, _c, r, jj) in &seen {
                    if *t == o.table && *r < o.call && *jj > jmax {
                        out.fail(Failure::new("prefix", "went_backwards", &format!("{}|{}", o.kind, label), format!("{} :: saw requests 1..{} after an earlier query had already seen 1..{}", o.sql, jmax, jj), case.clone()));
                        break;
                    }
                }
                // remember the most conservative reading of this observation
                seen.push((o.table.clone(), o.call, o.ret, jmin));
            }
        }
    }
    (obs.len(), distinct.len(), inside)
}

// ---- sync-point controller (hook H3) -----------------------------------------------------------------

type Action = Arc<dyn Fn() + Send + Sync>;

struct Gate {
    label: String,
    occurrence: usize,
    action: Option<Action>,
}

struct SyncState {
    counts: BTreeMap<String, usize>,
    trace: Vec<String>,
    gate: Option<Gate>,
    fired: bool,
    delay_ppm: u32,
    recording: bool,
}

static SYNC: Mutex<Option<SyncState>> = Mutex::new(None);
static SYNC_HOOKED: AtomicBool = AtomicBool::new(false);
static DELAY_SEED: AtomicU64 = AtomicU64::new(1);

fn install_sync_hook() {
    if SYNC_HOOKED.swap(true, Ordering::SeqCst) {
        return;
    }
    locustdb::verif::set_sync_hook(Some(Arc::new(|label, _detail| {
        let mut to_run: Option<Action> = None;
        let mut delay = false;
        {
            let mut g = SYNC.lock().unwrap();
            if let Some(st) = g.as_mut() {
                if !st.recording {
                    return;
                }
                let c = st.counts.entry(label.to_string()).or_insert(0);
                *c += 1;
                let occ = *c;
                if st.trace.len() < 400 {
                    st.trace.push(format!("{}#{}", label, occ));
                }
                if let Some(gate) = &mut st.gate {
                    if gate.label == label && gate.occurrence == occ && !st.fired {
                        st.fired = true;
                        to_run = gate.action.take();
                    }
                }
                if st.delay_ppm > 0 {
                    let x = crate::rng::splitmix(DELAY_SEED.fetch_add(0x9E37, Ordering::Relaxed));
                    delay = (x % 1_000_000) < st.delay_ppm as u64;
                }
            }
        }
        if let Some(a) = to_run {
            a();
        }
        if delay {
            std::thread::sleep(Duration::from_micros(200 + (crate::rng::splitmix(DELAY_SEED.load(Ordering::Relaxed)) % 1800)));
        }
    })));
}

fn prepare(db: &locustdb::LocustDB, sh: &Shared, tables: &[&str]) {
    // two flushed partitions per table + an open buffer, so that the flush under test batches and compacts
    for round in 0..2 {
        for t in tables {
            sh.ingest(db, t, 3 + round);
        }
        db.force_flush();
    }
    for t in tables {
        sh.ingest(db, t, 2);
        sh.ingest(db, t, 5);
    }
}

fn scenario_cfg(factor: u64, lz4: bool) -> DbCfg {
    // combine factor 999 keeps the two prepared partitions apart; the flush under test uses the real option value
    DbCfg { disk: true, partition_combine_factor: factor, mem_lz4: lz4, threads: 3, wal_flush_compaction_threads: 1, ..DbCfg::default() }
}

/// Runs flush+compaction with an operation injected exactly at (label, occurrence). Returns the sync trace.
#[allow(clippy::too_many_arguments)]
fn run_gate_scenario(id: &str, gate: Option<(String, usize)>, inject: &'static str, factor: u64, lz4: bool, out: &mut CaseOut, op: &OpCell) -> Vec<String> {
    install_sync_hook();
    let tables = ["g0", "g1"];
    // phase 1 (not recorded): build the state with compaction disabled
    let prep_cfg = scenario_cfg(999, lz4);
    let mut dbw = Db::open(&prep_cfg, op);
    let sh = Arc::new(Shared { t0: Instant::now(), tables: Mutex::new(BTreeMap::new()), obs: Mutex::new(Vec::new()) });
    *SYNC.lock().unwrap() = Some(SyncState { counts: BTreeMap::new(), trace: vec![], gate: None, fired: false, delay_ppm: 0, recording: false });
    prepare(dbw.handle(), &sh, &tables);
    // reopen with the factor under test (quiescent), the prepared partitions and the WAL-backed buffers survive
    dbw.cfg = scenario_cfg(factor, lz4);
    dbw.restart(true);
    let db = dbw.handle().clone();
    let pending: Arc<Mutex<Vec<std::thread::JoinHandle<()>>>> = Arc::new(Mutex::new(Vec::new()));
    let overlapped = Arc::new(AtomicUsize::new(0));
    let serialised = Arc::new(AtomicUsize::new(0));
    let action: Option<Action> = gate.as_ref().map(|_| {
        let db = db.clone();
        let sh = sh.clone();
        let pending = pending.clone();
        let overlapped = overlapped.clone();
        let serialised = serialised.clone();
        let a: Action = Arc::new(move || {
            let done = Arc::new(AtomicBool::new(false));
            let d2 = done.clone();
            let db2 = db.clone();
            let sh2 = sh.clone();
            let h = std::thread::spawn(move || {
                match inject {
                    "query" => {
                        sh2.battery(&db2, "g0", 1);
                        sh2.battery(&db2, "g1", 1);
                    }
                    "ingest" => {
                        sh2.ingest(&db2, "g0", 4);
                        sh2.battery(&db2, "g0", 1);
                        sh2.battery(&db2, "g1", 1);
                    }
                    _ => {
                        db2.evict_cache();
                        sh2.battery(&db2, "g0", 1);
                        sh2.battery(&db2, "g1", 1);
                    }
                }
                d2.store(true, Ordering::SeqCst);
            });
            // hold the flush at this point until the injected operation finished, or is evidently blocked by it
            let start = Instant::now();
            while !done.load(Ordering::SeqCst) && start.elapsed() < Duration::from_millis(400) {
                std::thread::sleep(Duration::from_millis(1));
            }
            if done.load(Ordering::SeqCst) {
                overlapped.fetch_add(1, Ordering::SeqCst);
            } else {
                serialised.fetch_add(1, Ordering::SeqCst);
            }
            pending.lock().unwrap().push(h);
        });
        a
    });
    {
        let mut g = SYNC.lock().unwrap();
        let st = g.as_mut().unwrap();
        st.counts.clear();
        st.trace.clear();
        st.fired = false;
        st.recording = true;
        st.gate = gate.as_ref().map(|(l, k)| Gate { label: l.clone(), occurrence: *k, action });
    }
    let f0 = sh.now();
    op.set("force_flush (gate scenario)");
    db.force_flush();
    op.set("");
    let f1 = sh.now();
    let (trace, fired) = {
        let mut g = SYNC.lock().unwrap();
        let st = g.as_mut().unwrap();
        st.recording = false;
        // drop an action that never ran: it holds a handle to the database
        st.gate = None;
        (st.trace.clone(), st.fired)
    };
    op.set("join injected operation");
    let hs: Vec<_> = pending.lock().unwrap().drain(..).collect();
    for h in hs {
        let _ = h.join();
    }
    op.set("");
    // final quiescent battery
    sh.battery(&db, "g0", 0);
    sh.battery(&db, "g1", 0);
    let case = json!({"gate": gate.as_ref().map(|(l, k)| format!("{}#{}", l, k)), "inject": inject, "factor": factor, "mem_lz4": lz4});
    let label = format!("gate:{}|{}", gate.as_ref().map(|g| g.0.clone()).unwrap_or_else(|| "none".into()), inject);
    let (nobs, _nd, inside) = check_history(&sh, out, &label, &case, &[(f0, f1)]);
    if let Some((l, k)) = &gate {
        if fired {
            let how = if overlapped.load(Ordering::SeqCst) > 0 { "overlapped" } else { "serialised" };
            out.distinct(format!("{}#{}|{}|factor={}|lz4={}|{}", l, k, inject, factor, lz4, how));
            out.set("gate_points_hit", format!("{}#{}", l, k));
            out.count(&format!("injected_{}", how), 1);
            out.count("observations_inside_flush", inside as u64);
        } else {
            out.count("gates_not_reached", 1);
        }
    }
    let _ = nobs;
    drop(db);
    dbw.close(true);
    let _ = id;
    trace
}

/// The mirror image of the gate scenario: the *query* is held at its k-th partition boundary while an eviction (or a
/// flush followed by an eviction) runs to completion, so partial results computed before the gate must stay valid
/// although the columns they were computed from have been dropped from memory in the meantime.
fn run_qgate_scenario(k: usize, inject: &'static str, lz4: bool, threads: usize, out: &mut CaseOut, op: &OpCell) {
    install_sync_hook();
    let tables = ["g0", "g1"];
    let mut cfg = scenario_cfg(999, lz4);
    cfg.threads = threads;
    let mut dbw = Db::open(&cfg, op);
    let sh = Arc::new(Shared { t0: Instant::now(), tables: Mutex::new(BTreeMap::new()), obs: Mutex::new(Vec::new()) });
    *SYNC.lock().unwrap() = Some(SyncState { counts: BTreeMap::new(), trace: vec![], gate: None, fired: false, delay_ppm: 0, recording: false });
    let db = dbw.handle().clone();
    // four flushed partitions per table + an open buffer
    for round in 0..4 {
        for t in &tables {
            sh.ingest(&db, t, 3 + round);
        }
        db.force_flush();
    }
    for t in &tables {
        sh.ingest(&db, t, 2);
    }
    let pending: Arc<Mutex<Vec<std::thread::JoinHandle<()>>>> = Arc::new(Mutex::new(Vec::new()));
    let overlapped = Arc::new(AtomicUsize::new(0));
    let action: Action = {
        let db = db.clone();
        let sh = sh.clone();
        let pending = pending.clone();
        let overlapped = overlapped.clone();
        Arc::new(move || {
            let done = Arc::new(AtomicBool::new(false));
            let d2 = done.clone();
            let db2 = db.clone();
            let sh2 = sh.clone();
            let h = std::thread::spawn(move || {
                match inject {
                    "evict" => {
                        db2.evict_cache();
                    }
                    "evict2" => {
                        db2.evict_cache();
                        // touch the columns again so that they are re-loaded into fresh allocations, then drop them again
                        let _ = futures::executor::block_on(db2.run_query("SELECT uid, s FROM \"g0\"", false, false, vec![]));
                        db2.evict_cache();
                    }
                    _ => {
                        sh2.ingest(&db2, "g0", 4);
                        db2.force_flush();
                        db2.evict_cache();
                    }
                }
                d2.store(true, Ordering::SeqCst);
            });
            let start = Instant::now();
            while !done.load(Ordering::SeqCst) && start.elapsed() < Duration::from_millis(600) {
                std::thread::sleep(Duration::from_millis(1));
            }
            if done.load(Ordering::SeqCst) {
                overlapped.fetch_add(1, Ordering::SeqCst);
            }
            pending.lock().unwrap().push(h);
        })
    };
    {
        let mut g = SYNC.lock().unwrap();
        let st = g.as_mut().unwrap();
        st.counts.clear();
        st.trace.clear();
        st.fired = false;
        st.recording = true;
        st.gate = Some(Gate { label: "query:before_partition".into(), occurrence: k, action: Some(action) });
    }
    op.set("query battery (query-gate scenario)");
    sh.battery(&db, "g0", 0);
    op.set("");
    let fired = {
        let mut g = SYNC.lock().unwrap();
        let st = g.as_mut().unwrap();
        st.recording = false;
        st.gate = None;
        st.fired
    };
    op.set("join injected operation");
    let hs: Vec<_> = pending.lock().unwrap().drain(..).collect();
    for h in hs {
        let _ = h.join();
    }
    op.set("");
    sh.battery(&db, "g0", 0);
    sh.battery(&db, "g1", 0);
    let case = json!({"query_gate": format!("query:before_partition#{}", k), "inject": inject, "mem_lz4": lz4, "threads": threads});
    check_history(&sh, out, &format!("qgate|{}", inject), &case, &[]);
    if fired {
        let how = if overlapped.load(Ordering::SeqCst) > 0 { "completed_inside_query" } else { "blocked_by_query" };
        out.distinct(format!("qgate#{}|{}|lz4={}|threads={}|{}", k, inject, lz4, threads, how));
        out.set("query_gate_points_hit", format!("query:before_partition#{}|{}", k, inject));
        out.count(&format!("query_gate_injection_{}", how), 1);
    } else {
        out.count("query_gates_not_reached", 1);
    }
    drop(db);
    dbw.close(true);
}

fn run_stress(id: String, seed: u64, ops_per_thread: usize, out: &mut CaseOut, op: &OpCell) {
    install_sync_hook();
    let mut rng = Rng::derive(seed, &id, 0);
    let cfg = DbCfg {
        disk: true,
        partition_combine_factor: *rng.pick(&[0u64, 1, 4]),
        mem_lz4: rng.chance(0.5),
        threads: *rng.pick(&[2usize, 4]),
        max_wal_files: *rng.pick(&[2usize, 1000]),
        max_wal_size_bytes: *rng.pick(&[300u64, 64 << 20]),
        io_threads: *rng.pick(&[1usize, 4]),
        wal_flush_compaction_threads: *rng.pick(&[1usize, 3]),
        max_partition_size_bytes: *rng.pick(&[1u64, 8 << 20]),
        mem_size_limit_tables: if rng.chance(0.2) { 1000 } else { 8 << 30 },
        ..DbCfg::default()
    };
    DELAY_SEED.store(seed ^ 0x5555, Ordering::SeqCst);
    *SYNC.lock().unwrap() = Some(SyncState { counts: BTreeMap::new(), trace: vec![], gate: None, fired: false, delay_ppm: 300_000, recording: true });
    let mut dbw = Db::open(&cfg, op);
    let db = dbw.handle().clone();
    let sh = Arc::new(Shared { t0: Instant::now(), tables: Mutex::new(BTreeMap::new()), obs: Mutex::new(Vec::new()) });
    let tables = ["s0", "s1", "s2"];
    let stop = Arc::new(AtomicBool::new(false));
    let mut hs = Vec::new();
    // one writer per table (so the request order of a table is known), all colliding on the ingestion lock
    for (i, t) in tables.iter().enumerate() {
        let (db, sh, t) = (db.clone(), sh.clone(), t.to_string());
        let mut r = Rng::derive(seed, &id, 100 + i as u64);
        hs.push(std::thread::spawn(move || {
            for _ in 0..ops_per_thread {
                sh.ingest(&db, &t, 1 + r.below(6));
                if r.chance(0.3) {
                    std::thread::sleep(Duration::from_micros(r.below(800) as u64));
                }
            }
        }));
    }
    let mut aux = Vec::new();
    for q in 0..4usize {
        let (db, sh, stop) = (db.clone(), sh.clone(), stop.clone());
        let mut r = Rng::derive(seed, &id, 200 + q as u64);
        aux.push(std::thread::spawn(move || {
            while !stop.load(Ordering::SeqCst) {
                let t = *r.pick(&["s0", "s1", "s2"]);
                match r.below(6) {
                    0 => sh.query(&db, t, "uids", format!("SELECT uid FROM \"{}\"", t), 10 + q),
                    1 => sh.query(&db, t, "agg", format!("SELECT COUNT(0), SUM(uid), MIN(uid), MAX(uid) FROM \"{}\"", t), 10 + q),
                    2 => sh.query(&db, t, "absent", format!("SELECT uid, never_ingested FROM \"{}\"", t), 10 + q),
                    3 => sh.query(&db, t, "partial", format!("SELECT uid, sometimes FROM \"{}\"", t), 10 + q),
                    4 => sh.query(&db, t, "filter", format!("SELECT uid FROM \"{}\" WHERE uid >= {}", t, 2 * UID_SHIFT), 10 + q),
                    _ => sh.query(&db, t, "top", format!("SELECT uid FROM \"{}\" ORDER BY uid DESC LIMIT 3", t), 10 + q),
                }
            }
        }));
    }
    let flush_windows = Arc::new(Mutex::new(Vec::new()));
    {
        let (db, sh, stop, fw) = (db.clone(), sh.clone(), stop.clone(), flush_windows.clone());
        aux.push(std::thread::spawn(move || {
            while !stop.load(Ordering::SeqCst) {
                let a = sh.now();
                db.force_flush();
                fw.lock().unwrap().push((a, sh.now()));
                std::thread::sleep(Duration::from_millis(2));
            }
        }));
    }
    // the evicter is part of every second stress run only: with it, runs usually end in the known
    // subpartition_key panic before many observations are collected
    let with_evicter = id.bytes().last().map(|b| b % 2 == 1).unwrap_or(false);
    out.count(if with_evicter { "stress_runs_with_evicter" } else { "stress_runs_without_evicter" }, 1);
    if with_evicter {
        let (db, stop) = (db.clone(), stop.clone());
        aux.push(std::thread::spawn(move || {
            while !stop.load(Ordering::SeqCst) {
                db.evict_cache();
                std::thread::sleep(Duration::from_millis(20));
            }
        }));
    }
    op.set("stress: waiting for the ingesters");
    // bounded wait: an ingester blocked behind a dead flush thread must not keep the queriers spinning
    let deadline = Instant::now() + Duration::from_secs(45);
    let mut blocked = false;
    for h in hs {
        while !h.is_finished() && Instant::now() < deadline {
            std::thread::sleep(Duration::from_millis(5));
        }
        if h.is_finished() {
            let _ = h.join();
        } else {
            blocked = true;
        }
    }
    stop.store(true, Ordering::SeqCst);
    if blocked {
        for h in aux {
            let _ = h.join();
        }
        // let the progress monitor classify it (no CPU progress while the call is pending => hang, with the panic sites on record)
        op.set("ingest (an ingester thread is still blocked after 45 s)");
        loop {
            std::thread::sleep(Duration::from_secs(1));
        }
    }
    op.set("stress: waiting for queriers / flusher / evicter");
    for h in aux {
        let _ = h.join();
    }
    op.set("");
    if let Some(st) = SYNC.lock().unwrap().as_mut() {
        st.recording = false;
        st.delay_ppm = 0;
    }
    for t in tables {
        sh.battery(&db, t, 0);
    }
    let case = json!({"cfg": cfg.to_json(), "ops_per_thread": ops_per_thread});
    let fw = flush_windows.lock().unwrap().clone();
    let (nobs, ndistinct, inside) = check_history(&sh, out, "stress", &case, &fw);
    out.count("stress_observations", nobs as u64);
    out.count("stress_distinct_prefixes_observed", ndistinct as u64);
    out.count("stress_flushes", fw.len() as u64);
    out.count("observations_inside_flush", inside as u64);
    out.distinct(format!("stress|factor={}|lz4={}|wal={}|subpart={}|prefixes~{}", cfg.partition_combine_factor, cfg.mem_lz4, cfg.max_wal_size_bytes, cfg.max_partition_size_bytes, ndistinct / 8));
    if id.ends_with('0') {
        let obs = sh.obs.lock().unwrap();
        out.sample(json!({"stress": id, "observations": nobs, "distinct_prefixes": ndistinct, "flushes": fw.len(),
            "first_observations": obs.iter().take(4).map(|o| json!({"sql": o.sql, "call_ns": o.call, "ret_ns": o.ret, "rows": o.result.as_ref().map(|q| q.cols.first().map(|c| c.1.len()).unwrap_or(0)).unwrap_or(0)})).collect::<Vec<_>>()}));
    }
    drop(db);
    dbw.close(true);
}

pub fn run(ctx: &mut Ctx) {
    ctx.watchdog = Duration::from_secs(75);
    // census of (label, occurrence) pairs: deterministic for the fixed scenario, so every shard computes the same list
    let mut gates: Vec<(String, usize)> = Vec::new();
    for l in ["flush:before_freeze", "flush:after_freeze", "flush:after_batching", "flush:partitions_persisted", "flush:after_compaction",
        "flush:metastore_persisted", "flush:orphans_deleted", "flush:done"] {
        gates.push((l.to_string(), 1));
    }
    // per table / per catalogue table occurrences (g0, g1, _meta_tables, _meta_columns_g0, _meta_columns_g1)
    for l in ["flush:table_batched", "compact:snapshotted", "compact:before_swap", "compact:after_swap", "compact:prepared"] {
        for k in 1..=5 {
            gates.push((l.to_string(), k));
        }
    }
    for l in ["load:before", "load:after", "get_cols:placeholder_inserted", "query:before_partition"] {
        for k in 1..=2 {
            gates.push((l.to_string(), k));
        }
    }
    let injects: [&'static str; 3] = ["query", "ingest", "evict"];
    let variants: Vec<(u64, bool)> = if ctx.quick() { vec![(1, true), (999, false)] } else { vec![(1, true), (1, false), (999, true), (999, false), (0, true), (4, false)] };
    // one dry run records the trace of sync points that a flush really passes (evidence)
    let id = "gate-dryrun".to_string();
    if ctx.take(&id) {
        ctx.run(&id, "gate-schedule", json!({"dryrun": true}), move |out, op| {
            let trace = run_gate_scenario("dry", None, "query", 1, true, out, op);
            for t in &trace {
                out.set("sync_points_in_one_flush", t.clone());
            }
            out.sample(json!({"sync_trace_of_one_flush_with_compaction": trace.iter().take(60).collect::<Vec<_>>()}));
        });
    }
    for (factor, lz4) in variants {
        for (label, k) in &gates {
            for inject in injects {
                let id = format!("gate-{}#{}-{}-f{}-{}", label, k, inject, factor, lz4 as u8);
                if !ctx.take(&id) {
                    continue;
                }
                let g = (label.clone(), *k);
                let idc = id.clone();
                ctx.run(&id, "gate-schedule", json!({"gate": format!("{}#{}", label, k), "inject": inject, "factor": factor, "mem_lz4": lz4}), move |out, op| {
                    run_gate_scenario(&idc, Some(g), inject, factor, lz4, out, op);
                });
            }
        }
    }
    // query held at each of its partition boundaries (7 statements x 5 partitions) while an eviction completes
    let qvariants: Vec<(bool, usize)> = if ctx.quick() { vec![(true, 3), (false, 1)] } else { vec![(true, 3), (false, 1), (false, 3), (true, 1), (true, 8)] };
    for (lz4, threads) in qvariants {
        for k in 1..=36usize {
            for inject in ["evict", "evict2", "flush_evict"] {
                if ctx.quick() && inject != "evict" && k % 3 != 0 {
                    continue;
                }
                let id = format!("qgate-{}-{}-{}-t{}", k, inject, lz4 as u8, threads);
                if !ctx.take(&id) {
                    continue;
                }
                ctx.run(&id, "query-gate-schedule", json!({"query_gate": k, "inject": inject, "mem_lz4": lz4, "threads": threads}), move |out, op| {
                    run_qgate_scenario(k, inject, lz4, threads, out, op);
                });
            }
        }
    }
    let nstress = ctx.pick(64u64, 5000);
    let ops = ctx.pick(40usize, 120);
    for i in 0..nstress {
        if i >= 64 && ctx.out_of_time() {
            break;
        }
        let id = format!("stress-{}", i);
        if !ctx.take(&id) {
            continue;
        }
        let seed = ctx.seed;
        let idc = id.clone();
        ctx.run(&id, "stress", json!({"stress": i}), move |out, op| run_stress(idc, seed, ops, out, op));
    }
}
