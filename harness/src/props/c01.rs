//! C01 — ingested values come back unchanged from a plain SELECT.
//!
//! Oracle: cell-by-cell comparison of `SELECT *` / `SELECT id, c..` (row view and column view) with the
//! logical model of what was supplied, under T-COERCE / T-SENTINEL.
use std::collections::BTreeMap;

use serde_json::json;

use crate::ctx::Ctx;
use crate::drive::{rowapi_compatible, struct_compatible, Db, DbCfg, QOut, Via};
use crate::gen::{self, all_classes, NULL_PATTERNS};
use crate::guard::OpCell;
use crate::model::{cell_matches, join_type, Batch, ColRepr, LTable, LType, V};
use crate::report::{CaseOut, Failure};
use crate::rng::Rng;

#[derive(Clone, Debug)]
pub struct ColSpec {
    pub name: String,
    pub kind: String,
    pub class: String,
    pub nullpat: String,
}

#[derive(Clone)]
struct Case {
    id: String,
    len: usize,
    via: Via,
    cfg: DbCfg,
    cfg_name: &'static str,
    /// rows per ingestion request (the table is cut into consecutive batches)
    splits: Vec<usize>,
    flush_between: bool,
    specs: Vec<ColSpec>,
    cols: Vec<(String, Vec<V>)>,
    restart: bool,
    /// Some(chunk) = the table is written to a CSV file and loaded with `load_csv` (chunk = rows per ingested chunk)
    csv: Option<usize>,
}

impl Case {
    fn path_name(&self) -> &'static str {
        if self.csv.is_some() { "csv" } else { self.via.name() }
    }
}

fn len_bucket(n: usize) -> &'static str {
    match n {
        0 => "0",
        1..=6 => "1-6",
        7..=9 => "7-9",
        10..=17 => "15-17",
        18..=65 => "63-65",
        66..=129 => "127-129",
        _ => "1000+",
    }
}

/// Representation of one column slice for a given transport.
fn repr_for(vals: &[V], via: Via, variant: usize) -> ColRepr {
    let natural = ColRepr::from_logical(vals);
    match via {
        Via::Wire => {
            // exercise alternative encodings of the same logical content
            match (&natural, variant % 3) {
                (ColRepr::SparseI64(_), 1) | (ColRepr::Sparse(_), 1) => ColRepr::Mixed(vals.to_vec()),
                (ColRepr::I64(x), 2) => ColRepr::SparseI64(x.iter().enumerate().map(|(i, v)| (i as u64, *v)).collect()),
                (ColRepr::Dense(x), 2) => ColRepr::Sparse(x.iter().enumerate().map(|(i, v)| (i as u64, *v)).collect()),
                // short dense column: trailing NULLs are implied by the table length
                (ColRepr::SparseI64(x), 2) if trailing_nulls_only(vals) => ColRepr::I64(x.iter().map(|p| p.1).collect()),
                (ColRepr::Sparse(x), 2) if trailing_nulls_only(vals) => ColRepr::Dense(x.iter().map(|p| p.1).collect()),
                _ => natural,
            }
        }
        Via::Struct | Via::SerDe => match natural {
            ColRepr::SparseI64(_) | ColRepr::Sparse(_) => ColRepr::Mixed(vals.to_vec()),
            other => other,
        },
        Via::RowApi => natural,
    }
}

fn trailing_nulls_only(vals: &[V]) -> bool {
    let first_null = vals.iter().position(|v| v.is_null()).unwrap_or(vals.len());
    first_null > 0 && vals[first_null..].iter().all(|v| v.is_null())
}

fn build_batches(case: &Case) -> Vec<Batch> {
    let mut out = Vec::new();
    let mut start = 0;
    for (bi, &rows) in case.splits.iter().enumerate() {
        let end = start + rows;
        let mut cols = Vec::new();
        for (ci, (name, vals)) in case.cols.iter().enumerate() {
            let slice = &vals[start..end];
            let r = repr_for(slice, case.via, ci + bi);
            // a column that is entirely NULL in this batch is either sent as Empty or left out
            if matches!(r, ColRepr::Empty) && (ci + bi) % 2 == 0 && name != "id" {
                continue;
            }
            cols.push((name.clone(), r));
        }
        out.push(Batch { table: "t".into(), rows, cols });
        start = end;
    }
    out
}

fn compare(
    out: &mut CaseOut,
    case: &Case,
    stage: &str,
    model: &LTable,
    q: &Result<QOut, crate::drive::QErr>,
    what: &str,
    expect_cols: &[String],
    sigs: &BTreeMap<String, String>,
) {
    let spec_of: BTreeMap<&str, &ColSpec> = case.specs.iter().map(|s| (s.name.as_str(), s)).collect();
    let case_json = || case_json(case);
    let q = match q {
        Ok(q) => q,
        Err(e) => {
            out.eval(1);
            out.fail(Failure::new("roundtrip", &format!("error:{}", e.kind), &format!("stage={}", stage), format!("{} failed: {}", what, e.msg), case_json()));
            return;
        }
    };
    // both views
    let views: Vec<(&str, Vec<(String, Vec<V>)>)> = {
        let mut v = vec![("cols", q.cols.clone())];
        if q.has_rows {
            let mut by_col: Vec<(String, Vec<V>)> = q.colnames.iter().map(|n| (n.clone(), Vec::new())).collect();
            for r in &q.rows {
                for (i, c) in r.iter().enumerate() {
                    if i < by_col.len() {
                        by_col[i].1.push(c.clone());
                    }
                }
            }
            // a zero-row result has no cells in the row view; lengths are compared below
            v.push(("rows", by_col));
        }
        v
    };
    for (view, cols) in views {
        let got_names: Vec<String> = cols.iter().map(|c| c.0.clone()).collect();
        let mut want: Vec<String> = expect_cols.to_vec();
        let mut got_sorted = got_names.clone();
        got_sorted.sort();
        want.sort();
        out.eval(1);
        if got_sorted != want {
            let missing: Vec<_> = want.iter().filter(|n| !got_sorted.contains(n)).take(5).cloned().collect();
            let extra: Vec<_> = got_sorted.iter().filter(|n| !want.contains(n)).take(5).cloned().collect();
            out.fail(Failure::new(
                "roundtrip",
                "columns",
                &format!("stage={},view={}", stage, view),
                format!("{}: column set differs: missing {:?} extra {:?} (got {} want {})", what, missing, extra, got_sorted.len(), want.len()),
                case_json(),
            ));
            continue;
        }
        for (name, got) in &cols {
            out.eval(1);
            let supplied = match model.cols.get(name) {
                Some(c) => c.clone(),
                None => vec![V::Null; model.len],
            };
            let spec = spec_of.get(name.as_str());
            let kind = spec.map(|s| s.kind.as_str()).unwrap_or("id");
            let class = spec.map(|s| s.class.as_str()).unwrap_or("id");
            let nullpat = spec.map(|s| s.nullpat.as_str()).unwrap_or("none");
            let feat = |mode: &str| format!("kind={},stage={},mode={}", kind, stage, mode);
            if got.len() != supplied.len() {
                out.fail(Failure::new(
                    "roundtrip",
                    "rowcount",
                    &feat("rowcount"),
                    format!("{} view={} column {} ({}/{}/{}): {} rows returned, {} supplied", what, view, name, kind, class, nullpat, got.len(), supplied.len()),
                    case_json(),
                ));
                continue;
            }
            let ctype = join_type(&supplied);
            let mut bad = None;
            for (i, (s, g)) in supplied.iter().zip(got.iter()).enumerate() {
                if !cell_matches(s, g, ctype) {
                    bad = Some((i, s.clone(), g.clone()));
                    break;
                }
            }
            if let Some((i, s, g)) = bad {
                let mode = match (&s, &g) {
                    (V::Null, _) => "null->value",
                    (_, V::Null) => "value->null",
                    _ => "changed",
                };
                out.fail(Failure::new(
                    "roundtrip",
                    mode,
                    &feat(mode),
                    format!(
                        "{} view={} column {} ({}/{}/{}) codec={:?} row {}: supplied {} got {} (len {})",
                        what, view, name, kind, class, nullpat, sigs.get(name), i, s.short(), g.short(), supplied.len()
                    ),
                    case_json(),
                ));
            } else if view == "cols" {
                let has_val = supplied.iter().any(|v| !v.is_null());
                let has_null = supplied.iter().any(|v| v.is_null());
                if has_val && (nullpat == "none" || has_null) {
                    out.distinct(format!(
                        "{}|{}|{}|{}|{}|{}|{}|{}",
                        kind, class, nullpat, len_bucket(case.len), case.path_name(), case.cfg_name, stage,
                        sigs.get(name).map(|s| s.as_str()).unwrap_or("-")
                    ));
                }
            }
        }
    }
}

fn case_json(case: &Case) -> serde_json::Value {
    json!({
        "len": case.len, "via": case.path_name(), "cfg": case.cfg.to_json(), "splits": case.splits,
        "flush_between": case.flush_between, "restart": case.restart,
        "columns": case.specs.iter().take(40).map(|s| format!("{}:{}/{}/{}", s.name, s.kind, s.class, s.nullpat)).collect::<Vec<_>>(),
        "ncols": case.specs.len(),
    })
}

fn run_case(case: Case, out: &mut CaseOut, op: &OpCell) {
    let db = Db::open(&case.cfg, op);
    let mut model = LTable::new("t");
    let batches = build_batches(&case);
    let mut db = db;
    let batches = if let Some(chunk) = case.csv {
        // CSV path: the engine reads the text file itself; what it acknowledged is the whole file
        let b = load_via_csv(&db, &case, chunk, out, op);
        model.append(&b);
        Vec::new()
    } else {
        batches
    };
    for (i, b) in batches.iter().enumerate() {
        db.ingest(std::slice::from_ref(b), case.via);
        model.append(b);
        out.set("representations", b.cols.iter().map(|c| c.1.kind()).collect::<std::collections::BTreeSet<_>>().into_iter().collect::<Vec<_>>().join(","));
        for (_, r) in &b.cols {
            out.set("repr_kinds", format!("{}:{}", case.via.name(), r.kind()));
        }
        if case.flush_between && i + 1 < batches.len() {
            db.flush();
        }
    }
    let expect_cols: Vec<String> = model.cols.keys().cloned().collect();
    let sig_map = |db: &Db| -> BTreeMap<String, String> {
        db.codec_signatures("t").into_iter().map(|(n, s)| (n, s.join("+"))).collect()
    };

    let mut stages: Vec<&str> = vec!["unflushed"];
    stages.push("flushed");
    if case.cfg.disk {
        stages.push("reloaded");
        if case.restart {
            stages.push("restarted");
        }
    }
    for stage in stages {
        match stage {
            "flushed" => db.flush(),
            "reloaded" => {
                let n = db.evict();
                out.count("evicted_bytes", n as u64);
            }
            "restarted" => db.restart(false),
            _ => {}
        }
        let sigs = if stage == "reloaded" || stage == "restarted" { BTreeMap::new() } else { sig_map(&db) };
        for (_, s) in &sigs {
            for part in s.split('+') {
                out.set("codec_signatures", part.to_string());
            }
        }
        let q = db.query_opts("SELECT * FROM t", false, true);
        if let Ok(q) = &q {
            if stage == "reloaded" || stage == "restarted" {
                out.count("cold_reads", (q.disk_read_bytes > 0) as u64);
            }
        }
        compare(out, &case, stage, &model, &q, "SELECT *", &expect_cols, &sigs);
        // explicit column lists: a handful of columns at a time, column view only
        let names: Vec<&String> = expect_cols.iter().filter(|n| *n != "id").collect();
        for chunk in names.chunks(64).take(3) {
            let list = chunk.iter().map(|n| format!("\"{}\"", n)).collect::<Vec<_>>().join(", ");
            let sql = format!("SELECT id, {} FROM t", list);
            let q = db.query_opts(&sql, false, false);
            let mut want: Vec<String> = chunk.iter().map(|s| s.to_string()).collect();
            want.push("id".into());
            compare(out, &case, stage, &model, &q, "SELECT id, cols..", &want, &sigs);
        }
    }
    out.sample(json!({"case": case.id, "len": case.len, "via": case.path_name(), "cfg": case.cfg_name, "splits": case.splits,
        "first_columns": case.specs.iter().take(3).map(|s| json!({"name": s.name, "class": format!("{}/{}/{}", s.kind, s.class, s.nullpat),
            "values": case.cols.iter().find(|c| c.0 == s.name).map(|c| c.1.iter().take(6).map(|v| v.short()).collect::<Vec<_>>())})).collect::<Vec<_>>()}));
}

/// Text of one cell in the CSV file (None = empty field = NULL).
fn csv_text(v: &V) -> Option<String> {
    match v {
        V::Null => None,
        V::Int(i) => Some(i.to_string()),
        V::Float(f) => Some(format!("{:?}", f)),
        V::Str(s) => Some(s.clone()),
    }
}

/// What a CSV cell means once it is text: a float is whatever its shortest round-trip text parses to (NaN payloads
/// cannot be written in text), everything else is unchanged.
fn csv_logical(v: &V) -> V {
    match v {
        V::Float(f) => V::Float(format!("{:?}", f).parse::<f64>().unwrap()),
        other => other.clone(),
    }
}

fn csv_quote(s: &str) -> String {
    format!("\"{}\"", s.replace('"', "\"\""))
}

/// Writes the case's table as a CSV file (header row, every string field quoted, NULL = empty unquoted field) and loads
/// it through `LocustDB::load_csv`. String columns are declared always-string, columns with NULLs are declared
/// nullable (the documented way to get NULLs out of a CSV file). Returns the logical content as one batch.
fn load_via_csv(db: &Db, case: &Case, chunk: usize, out: &mut CaseOut, op: &OpCell) -> Batch {
    let dir = crate::drive::fresh_dir("c01csv");
    let path = dir.join("t.csv");
    let mut text = String::new();
    text.push_str(&case.cols.iter().map(|c| csv_quote(&c.0)).collect::<Vec<_>>().join(","));
    text.push('\n');
    for r in 0..case.len {
        let mut fields = Vec::with_capacity(case.cols.len());
        for (_, vals) in &case.cols {
            fields.push(match &vals[r] {
                V::Str(s) => csv_quote(s),
                v => csv_text(v).unwrap_or_default(),
            });
        }
        text.push_str(&fields.join(","));
        text.push('\n');
    }
    std::fs::write(&path, text.as_bytes()).expect("write csv");
    let str_idx: Vec<usize> = case.cols.iter().enumerate().filter(|(_, c)| c.1.iter().any(|v| matches!(v, V::Str(_)))).map(|(i, _)| i).collect();
    let null_idx: Vec<usize> = case.cols.iter().enumerate().filter(|(_, c)| c.1.iter().any(|v| v.is_null())).map(|(i, _)| i).collect();
    let opts = locustdb::LoadOptions::new(&path, "t").with_partition_size(chunk).with_always_string(&str_idx).allow_nulls(&null_idx);
    op.set("load_csv");
    let r = futures::executor::block_on(db.handle().load_csv(opts));
    op.set("");
    if let Err(e) = r {
        out.fail(Failure::new("ingest", "csv_load_failed", "csv", format!("load_csv returned an error: {}", e), case_json(case)));
    }
    out.count("csv_loads", 1);
    out.count("csv_chunks", case.len.div_ceil(chunk.max(1)) as u64);
    let _ = std::fs::remove_dir_all(&dir);
    let cols: Vec<(String, ColRepr)> = case.cols.iter().map(|(n, vals)| {
        let logical: Vec<V> = vals.iter().map(csv_logical).collect();
        let r = ColRepr::from_logical(&logical);
        out.set("repr_kinds", format!("csv:{}", r.kind()));
        (n.clone(), r)
    }).collect();
    Batch { table: "t".into(), rows: case.len, cols }
}

/// Columns for the CSV path: the class grid, minus what a text file cannot say. An empty string in a nullable column is
/// the CSV spelling of NULL, so those cells become "e"; a column that is NULL in every row has no type and is left out.
fn csv_columns(len: usize, rng: &mut Rng, nullpats: &[&str]) -> (Vec<ColSpec>, Vec<(String, Vec<V>)>) {
    let (specs, cols) = grid_columns(len, Via::Wire, rng, nullpats);
    let mut out_specs = Vec::new();
    let mut out_cols = Vec::new();
    for (name, vals) in cols {
        let has_null = vals.iter().any(|v| v.is_null());
        if name != "id" && vals.iter().all(|v| v.is_null()) {
            continue;
        }
        let vals: Vec<V> = vals.into_iter().map(|v| match v {
            V::Str(s) if s.is_empty() && has_null => V::Str("e".into()),
            // a lone CR or LF inside a quoted field is legal CSV but "\r\n" normalisation is reader specific: keep one form
            V::Str(s) if s.contains('\r') => V::Str(s.replace('\r', "r")),
            v => v,
        }).collect();
        if let Some(sp) = specs.iter().find(|sp| sp.name == name) {
            out_specs.push(sp.clone());
        }
        out_cols.push((name, vals));
    }
    (out_specs, out_cols)
}

fn configs() -> Vec<(&'static str, DbCfg)> {
    vec![
        ("mem_lz4", DbCfg { disk: false, mem_lz4: true, ..DbCfg::default() }),
        ("disk_lz4", DbCfg { disk: true, mem_lz4: true, partition_combine_factor: 0, ..DbCfg::default() }),
        ("disk_nolz4", DbCfg { disk: true, mem_lz4: false, max_partition_size_bytes: 4096, partition_combine_factor: 0, ..DbCfg::default() }),
    ]
}

fn grid_columns(len: usize, via: Via, rng: &mut Rng, nullpats: &[&str]) -> (Vec<ColSpec>, Vec<(String, Vec<V>)>) {
    let mut specs = Vec::new();
    let mut cols = Vec::new();
    let ids: Vec<V> = (0..len as i64).map(V::Int).collect();
    cols.push(("id".to_string(), ids));
    if via == Via::RowApi {
        cols.push(("timestamp".to_string(), (0..len).map(|i| V::Float(i as f64 * 0.5)).collect()));
        specs.push(ColSpec { name: "timestamp".into(), kind: "float".into(), class: "f32_exact".into(), nullpat: "none".into() });
    }
    let mut n = 0;
    for (kind, class) in all_classes() {
        for pat in nullpats {
            if via == Via::RowApi && kind == "str" && *pat != "none" {
                continue;
            }
            let vals = gen::gen_column(kind, class, len, rng);
            let present = gen::null_pattern(pat, len, rng);
            let vals = gen::apply_nulls(vals, &present);
            let name = format!("c{:03}_{}_{}", n, class, pat);
            n += 1;
            specs.push(ColSpec { name: name.clone(), kind: kind.into(), class: class.into(), nullpat: pat.to_string() });
            cols.push((name, vals));
        }
    }
    (specs, cols)
}

/// Columns whose type changes between the first and the second half (documented degradation).
fn mixed_columns(len: usize, rng: &mut Rng) -> (Vec<ColSpec>, Vec<(String, Vec<V>)>) {
    let mut specs = Vec::new();
    let mut cols = Vec::new();
    cols.push(("id".to_string(), (0..len as i64).map(V::Int).collect()));
    let half = len / 2;
    let kinds = ["int", "float", "str", "null"];
    let mut n = 0;
    for a in kinds {
        for b in kinds {
            if a == b {
                continue;
            }
            let gen_half = |k: &str, n: usize, rng: &mut Rng| -> Vec<V> {
                match k {
                    "int" => gen::gen_column("int", *rng.pick(&["u8", "u16_off", "small_mixed_sign"]), n, rng),
                    "float" => gen::gen_column("float", *rng.pick(&["f32_exact", "int_valued", "mixed_special"]), n, rng),
                    "str" => gen::gen_column("str", *rng.pick(&["short_lowcard", "numerals", "unicode"]), n, rng),
                    _ => vec![V::Null; n],
                }
            };
            let mut vals = gen_half(a, half, rng);
            vals.extend(gen_half(b, len - half, rng));
            for pat in ["none", "p50"] {
                let present = gen::null_pattern(pat, len, rng);
                let v = gen::apply_nulls(vals.clone(), &present);
                let name = format!("m{:03}_{}_then_{}_{}", n, a, b, pat);
                n += 1;
                specs.push(ColSpec { name: name.clone(), kind: format!("{}+{}", a, b), class: "mixed".into(), nullpat: pat.into() });
                cols.push((name, v));
            }
        }
    }
    (specs, cols)
}

pub fn run(ctx: &mut Ctx) {
    let vias = [Via::Wire, Via::Struct, Via::RowApi, Via::SerDe];
    let lengths: Vec<usize> = if ctx.quick() { vec![1, 7, 8, 9, 16, 17, 63, 64, 65, 129, 1000] } else { gen::LENGTHS.to_vec() };
    let mut case_no = 0u64;
    // deterministic grid (seed moves only the random values inside a class)
    for &len in &lengths {
        for (vi, via) in vias.iter().enumerate() {
            for (ci, (cfg_name, cfg)) in configs().into_iter().enumerate() {
                // quick: pairwise-style reduction — every (len, via) and every (len, cfg) pair, not the full product
                if ctx.quick() && (vi + ci + len) % 3 != 0 && len > 17 {
                    continue;
                }
                case_no += 1;
                let id = format!("grid-l{}-{}-{}", len, via.name(), cfg_name);
                if !ctx.take(&id) {
                    continue;
                }
                let mut rng = Rng::derive(ctx.seed, &id, 0);
                let (specs, cols) = grid_columns(len, *via, &mut rng, NULL_PATTERNS);
                let splits = if len >= 4 && (case_no % 2 == 0) { vec![len / 3, len - len / 3] } else { vec![len] };
                let case = Case {
                    id: id.clone(), len, via: *via, cfg, cfg_name, splits, flush_between: case_no % 4 == 0,
                    specs, cols, restart: !ctx.quick() || case_no % 5 == 0, csv: None,
                };
                let cj = case_json(&case);
                ctx.run(&id, "ingest+select", cj, move |out, op| run_case(case, out, op));
            }
        }
    }
    // type-degradation grid
    for &len in &[2usize, 9, 64, 130] {
        for via in [Via::Wire, Via::Struct] {
            for (cfg_name, cfg) in configs() {
                for flush_between in [false, true] {
                    let id = format!("mixed-l{}-{}-{}-fb{}", len, via.name(), cfg_name, flush_between as u8);
                    if !ctx.take(&id) {
                        continue;
                    }
                    let mut rng = Rng::derive(ctx.seed, &id, 0);
                    let (specs, cols) = mixed_columns(len, &mut rng);
                    let case = Case {
                        id: id.clone(), len, via, cfg: cfg.clone(), cfg_name, splits: vec![len / 2, len - len / 2],
                        flush_between, specs, cols, restart: false, csv: None,
                    };
                    let cj = case_json(&case);
                    ctx.run(&id, "ingest+select", cj, move |out, op| run_case(case, out, op));
                }
            }
        }
    }
    // CSV load path: the same class grid through a text file, cut into chunks of several sizes by the loader
    let csv_lengths: Vec<usize> = if ctx.quick() { vec![1, 8, 9, 65, 300] } else { vec![1, 7, 8, 9, 16, 17, 63, 64, 65, 129, 300, 1000, 2049] };
    for &len in &csv_lengths {
        for chunk in [1usize << 16, 64, 7] {
            if chunk < (1 << 16) && len <= chunk {
                continue;
            }
            for (ci, (cfg_name, cfg)) in configs().into_iter().enumerate() {
                if ctx.quick() && (ci + len + chunk) % 3 != 0 {
                    continue;
                }
                let id = format!("csv-l{}-chunk{}-{}", len, chunk, cfg_name);
                if !ctx.take(&id) {
                    continue;
                }
                let mut rng = Rng::derive(ctx.seed, &id, 0);
                let (specs, cols) = csv_columns(len, &mut rng, NULL_PATTERNS);
                let case = Case {
                    id: id.clone(), len, via: Via::Wire, cfg, cfg_name, splits: vec![len], flush_between: false, specs, cols,
                    restart: len % 2 == 1, csv: Some(chunk),
                };
                let mut cj = case_json(&case);
                cj["csv_chunk"] = json!(chunk);
                ctx.run(&id, "csv-load+select", cj, move |out, op| run_case(case, out, op));
            }
        }
    }
    // high-cardinality dictionary (u16 / u32 index) — long columns
    let big: &[usize] = if ctx.quick() { &[3000] } else { &[3000, 140_000] };
    for &len in big {
        let id = format!("bigdict-l{}", len);
        if !ctx.take(&id) {
            continue;
        }
        let mut rng = Rng::derive(ctx.seed, &id, 0);
        let mut specs = Vec::new();
        let mut cols = vec![("id".to_string(), (0..len as i64).map(V::Int).collect::<Vec<_>>())];
        // each value appears 3 times -> cardinality len/3 < len/2 -> dictionary with len/3 entries
        let card = len / 3;
        let vals: Vec<V> = (0..len).map(|i| V::Str(format!("key{:06}", (i * 7919) % card))).collect();
        specs.push(ColSpec { name: "dict".into(), kind: "str".into(), class: format!("dict_card{}", card), nullpat: "none".into() });
        cols.push(("dict".into(), vals.clone()));
        let present = gen::null_pattern("p10", len, &mut rng);
        specs.push(ColSpec { name: "dict_n".into(), kind: "str".into(), class: format!("dict_card{}", card), nullpat: "p10".into() });
        cols.push(("dict_n".into(), gen::apply_nulls(vals, &present)));
        let case = Case {
            id: id.clone(), len, via: Via::Wire, cfg: configs()[1].1.clone(), cfg_name: "disk_lz4", splits: vec![len],
            flush_between: false, specs, cols, restart: false, csv: None,
        };
        let cj = case_json(&case);
        ctx.run(&id, "ingest+select", cj, move |out, op| run_case(case, out, op));
    }
    // random fill: random subsets of classes with random lengths and batch splits, until the budget is used
    let mut i = 0u64;
    let max_random = ctx.pick(60u64, 2000);
    while i < max_random && !ctx.out_of_time() {
        let id = format!("rand-{}", i);
        i += 1;
        if !ctx.take(&id) {
            continue;
        }
        let mut rng = Rng::derive(ctx.seed, &id, 0);
        let len = *rng.pick(&[3usize, 5, 10, 31, 33, 100, 257, 511, 2049]);
        let via = *rng.pick(&vias);
        let (cfg_name, cfg) = configs()[rng.below(3)].clone();
        let pats: Vec<&str> = (0..3).map(|_| *rng.pick(NULL_PATTERNS)).collect();
        let (specs, cols) = grid_columns(len, via, &mut rng, &pats);
        let mut splits = Vec::new();
        let mut left = len;
        while left > 0 {
            let take = 1 + rng.below(left);
            splits.push(take);
            left -= take;
            if splits.len() == 4 {
                if left > 0 {
                    splits.push(left);
                }
                break;
            }
        }
        let case = Case { id: id.clone(), len, via, cfg, cfg_name, splits, flush_between: rng.chance(0.5), specs, cols, restart: rng.chance(0.3), csv: None };
        let cj = case_json(&case);
        ctx.run(&id, "ingest+select", cj, move |out, op| run_case(case, out, op));
    }
    let _ = (struct_compatible as fn(&Batch) -> bool, rowapi_compatible as fn(&Batch) -> bool, LType::Null);
}
