//! C06 — integer arithmetic is exact or the query fails - it never wraps.
use serde_json::json;

use crate::ctx::Ctx;
use crate::guard::OpCell;
use crate::model::{LTable, V};
use crate::props::c03::setup;
use crate::qcheck::{self, RefAnswer, Verdict};
use crate::report::CaseOut;
use crate::rng::Rng;
use crate::sql::{bin, col, AggF, Op, E, Q};
use crate::tables::{coldef, make_table, random_splits, ColDef, GenTable, Realisation};

const EDGE: &[i64] = &[0, 1, -1, 2, 255, 256, 65_535, 65_536, (1 << 32) - 1, 1 << 32, (1 << 32) + 1, i64::MIN, i64::MIN + 1, i64::MAX - 1, 1 << 62, -(1 << 62), 3_037_000_499, 3_037_000_500];

fn arith_table(splits: &[usize], rng: &mut Rng) -> GenTable {
    let defs: Vec<ColDef> = vec![
        coldef("a_u8", "int", "u8", 0.0),
        coldef("a_u8n", "int", "u8", 0.25),
        coldef("a_off", "int", "u8_off", 0.0),
        coldef("a_neg", "int", "u8_neg", 0.0),
        coldef("a_u16", "int", "u16", 0.0),
        coldef("a_u32", "int", "u32", 0.0),
        coldef("a_small", "int", "small_mixed_sign", 0.15),
    ];
    let mut gt = make_table("t", &defs, splits, rng);
    let n = gt.table.len;
    // columns holding the edge values themselves (raw i64 encoding) and a zero-rich divisor
    let edge: Vec<V> = (0..n).map(|i| V::Int(EDGE[(i * 7 + rng.below(3)) % EDGE.len()])).collect();
    gt.table.cols.insert("a_edge".into(), edge);
    gt.defs.push(coldef("a_edge", "int", "edge", 0.0));
    let edgen: Vec<V> = (0..n).map(|i| if i % 4 == 0 { V::Null } else { V::Int(EDGE[(i * 5) % EDGE.len()]) }).collect();
    gt.table.cols.insert("a_edgen".into(), edgen);
    gt.defs.push(coldef("a_edgen", "int", "edge", 0.25));
    let zeroish: Vec<V> = (0..n).map(|i| V::Int([0i64, 1, -1, 2, 7][i % 5])).collect();
    gt.table.cols.insert("a_zero".into(), zeroish);
    gt.defs.push(coldef("a_zero", "int", "zero", 0.0));
    let pos: Vec<V> = (0..n).map(|i| V::Int(1 + (i as i64 % 9))).collect();
    gt.table.cols.insert("a_pos".into(), pos);
    gt.defs.push(coldef("a_pos", "int", "pos", 0.0));
    // SUM layouts: values near 2^62 so that overflow happens inside a partition, only across partitions, or transiently
    let mut start = 0;
    let mut s_cross = vec![V::Int(0); n];
    let mut s_trans = vec![V::Int(0); n];
    let mut s_in = vec![V::Int(0); n];
    for (bi, &rows) in splits.iter().enumerate() {
        for r in 0..rows {
            let i = start + r;
            // one big value per partition: total overflows only when >= 2 partitions are merged
            s_cross[i] = V::Int(if r == 0 { (1i64 << 62) + bi as i64 } else { (r % 5) as i64 });
            // +2^62, +2^62, -2^62, -2^62 ... partial sums may overflow, the total fits
            s_trans[i] = V::Int(if r < 2 { if bi % 2 == 0 { 1i64 << 62 } else { -(1i64 << 62) } } else { 1 });
            // three big values in the first partition: overflow inside one partition
            s_in[i] = V::Int(if bi == 0 && r < 3 { 1i64 << 62 } else { 2 });
        }
        start += rows;
    }
    for (name, vals) in [("s_cross", s_cross), ("s_trans", s_trans), ("s_in", s_in)] {
        gt.table.cols.insert(name.into(), vals);
        gt.defs.push(coldef(name, "int", "sum_layout", 0.0));
    }
    let grp: Vec<V> = (0..n).map(|i| V::Int((i % 3) as i64)).collect();
    gt.table.cols.insert("grp".into(), grp);
    gt.defs.push(coldef("grp", "int", "key", 0.0));
    gt
}

/// constants within reach of the i64 limits by the offsets / widths of the narrow encodings
const NEAR_LIMITS: &[i64] = &[
    i64::MAX - 1, i64::MAX - 2, i64::MAX - 100, i64::MAX - 255, i64::MAX - 256, i64::MAX - 1000, i64::MAX - 65_535, i64::MAX - 65_536,
    i64::MIN + 1, i64::MIN + 2, i64::MIN + 100, i64::MIN + 255, i64::MIN + 256, i64::MIN + 1000, i64::MIN + 65_535, i64::MIN + 65_536,
];
const COLS: &[&str] = &["a_u8", "a_u8n", "a_off", "a_neg", "a_u16", "a_u32", "a_small", "a_edge", "a_edgen", "a_zero", "a_pos"];
const OPS: [Op; 5] = [Op::Add, Op::Sub, Op::Mul, Op::Div, Op::Mod];

fn gen_expr(rng: &mut Rng, depth: usize) -> (E, String) {
    if depth == 0 || rng.chance(0.3) {
        if rng.chance(0.6) {
            let c = *rng.pick(COLS);
            return (col(c), "col".into());
        }
        let k = *rng.pick(EDGE);
        let k = if k == i64::MIN { i64::MIN + 1 } else { k };
        return (E::Int(k), "const".into());
    }
    let op = *rng.pick(&OPS);
    let (a, la) = gen_expr(rng, depth - 1);
    let (b, lb) = gen_expr(rng, depth - 1);
    // constant-only subtrees are folded by nobody: keep at least one column
    (bin(op, a, b), format!("({}{}{})", la, op.sql(), lb))
}

pub fn diagnose(mq: &Q, mode: &str, _got: &Result<crate::drive::QOut, crate::drive::QErr>, table: &LTable) -> Option<String> {
    // class of the minimal failing statement: top-level operator and operand kinds of the first failing select item
    let ann = qcheck::annotate(table);
    for (e, _) in &mq.select {
        match e {
            E::Bin(op, a, b) if op.is_arith() => {
                let k = |x: &E| match x {
                    E::Col(c) => ann.get(c).copied().unwrap_or("none").to_string(),
                    E::Int(_) => "const".to_string(),
                    E::Bin(..) => "expr".to_string(),
                    _ => "other".to_string(),
                };
                return Some(format!("arith:{}:{}~{}:{}", op.sql(), k(a), k(b), if mode == "ok_but_overflow" { "no_error" } else { "value" }));
            }
            E::Agg(AggF::Sum, inner) => {
                return Some(format!("sum:{}:{}", match &**inner { E::Col(c) => c.clone(), _ => "expr".into() }, if mode == "ok_but_overflow" { "no_error" } else { "value" }));
            }
            _ => {}
        }
    }
    None
}

fn run_case(id: String, seed: u64, n: usize, parts: usize, nq: usize, out: &mut CaseOut, op: &OpCell) {
    let mut rng = Rng::derive(seed, &id, 0);
    let splits = random_splits(n, parts, &mut rng);
    let gt = arith_table(&splits, &mut rng);
    let mut real = Realisation::partitions(&splits, 2);
    if rng.chance(0.3) {
        *real.flush_after.last_mut().unwrap() = false;
    }
    let case = json!({"n": n, "splits": splits});
    let mut env = setup(gt, &real, &mut rng, op);
    let mut sampled = false;
    // Deterministic boundary grid (added after seed C06d, which random expression trees hit too rarely): every column x
    // operator x operand order against constants at and next to the i64 limits and the encoding boundaries; each case takes
    // a rotating slice of the constants so that the whole grid is covered over the cases of one run.
    let case_no: usize = id.rsplit('-').next().and_then(|x| x.parse().ok()).unwrap_or(0);
    let mut grid: Vec<(Q, String)> = Vec::new();
    for (ci, c) in COLS.iter().enumerate() {
        for (oi, o) in OPS.iter().enumerate() {
            for order in 0..2usize {
                for pick in 0..3usize {
                    let k = if pick < 2 { NEAR_LIMITS[(case_no * 2 + pick + ci + oi * 3 + order) % NEAR_LIMITS.len()] } else { EDGE[(case_no + ci * 5 + oi + order) % EDGE.len()] };
                    let k = if k == i64::MIN { i64::MIN + 1 } else { k };
                    let e = if order == 0 { bin(*o, col(c), E::Int(k)) } else { bin(*o, E::Int(k), col(c)) };
                    let mut q = Q::new("t");
                    q.select.push((col("id"), None));
                    q.select.push((e, None));
                    let kc = if k > i64::MAX - 70_000 { "near_max" } else if k < i64::MIN + 70_000 { "near_min" } else { "edge" };
                    grid.push((q, format!("grid:{}{}{}|{}", if order == 0 { c } else { kc }, o.sql(), if order == 0 { kc } else { c }, order)));
                }
            }
        }
    }
    let ngrid = grid.len();
    let mut grid = grid.into_iter();
    for k in 0..nq + ngrid {
        let mut q = Q::new("t");
        let label;
        if let Some((gq, gl)) = grid.next() {
            q = gq;
            label = gl;
            out.count("boundary_grid_statements", 1);
        } else if k % 5 == 4 {
            // SUM over the overflow layouts, with and without grouping
            let c = *rng.pick(&["s_cross", "s_trans", "s_in", "a_edge", "a_u32", "a_edgen"]);
            if rng.chance(0.5) {
                q.select.push((col("grp"), None));
            }
            q.select.push((E::Agg(AggF::Sum, Box::new(col(c))), None));
            label = format!("sum({})|grouped={}|parts={}", c, q.select.len() > 1, parts);
        } else {
            q.select.push((col("id"), None));
            let d = 1 + rng.below(3);
            let (e, l) = gen_expr(&mut rng, d);
            let mut cols = Vec::new();
            e.cols(&mut cols);
            if cols.is_empty() {
                continue;
            }
            q.select.push((e, None));
            label = l;
        }
        let table = &env.gt.table;
        let refa = qcheck::reference(&q, table);
        let class = match &refa {
            RefAnswer::Overflow => "must_fail",
            RefAnswer::Sequence { .. } | RefAnswer::Multiset { .. } => "must_be_exact",
            _ => "no_claim",
        };
        let v = qcheck::check_diag(&q, table, &env.db, &mut env.probe, out, "arith", "exact", &case, &|mq, mode, got, t| diagnose(mq, mode, got, t));
        if let Some(Verdict::Agree) = v {
            out.count(&format!("agree:{}", class), 1);
            out.distinct(format!("{}|{}", label, class));
            if !sampled && class == "must_fail" {
                sampled = true;
                out.sample(json!({"sql": q.sql(), "reference": "overflow or division by zero on some row => the query must fail", "splits": splits}));
            }
        }
    }
    out.count("supported_shapes", env.probe.supported_shapes);
    out.count("unsupported_shapes", env.probe.unsupported_shapes);
}

pub fn run(ctx: &mut Ctx) {
    let ncases = ctx.pick(144u64, 1500);
    let nq = ctx.pick(100usize, 120);
    for i in 0..ncases {
        if i >= 48 && ctx.out_of_time() {
            break;
        }
        let id = format!("arith-{}", i);
        if !ctx.take(&id) {
            continue;
        }
        let n = [30usize, 120, 400][(i % 3) as usize];
        let parts = 1 + (i % 4) as usize;
        let seed = ctx.seed;
        let idc = id.clone();
        ctx.run(&id, "arith-query", json!({"n": n, "parts": parts}), move |out, op| run_case(idc, seed, n, parts, nq, out, op));
    }
}
