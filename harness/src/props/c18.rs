//! C18 — a finished flush leaves no garbage and unblocks ingestion.
use std::collections::BTreeSet;
use std::sync::atomic::{AtomicBool, Ordering};
use std::sync::{Arc, Mutex};
use std::time::{Duration, Instant};

use serde_json::json;

use crate::ctx::Ctx;
use crate::drive::{event_buffer, list_files, poll_to_completion, DbCfg, Via};
use crate::guard::OpCell;
use crate::hist::{history_string, Op, World};
use crate::props::c08::mk_batch;
use crate::report::{CaseOut, Failure};
use crate::rng::Rng;

/// Expected directory content at quiescence: the catalogue file plus one file per (partition, sub-partition).
pub fn expected_files(w: &World) -> BTreeSet<String> {
    let mut s = BTreeSet::new();
    s.insert("meta".to_string());
    if let Some(cat) = w.db.handle().verif_catalogue() {
        for p in cat {
            for (key, _) in &p.subpartitions {
                s.insert(format!("tables/{}/{}", locustdb::verif::sanitize_table_name(&p.table), locustdb::verif::partition_filename(p.id, key)));
            }
        }
    }
    s
}

/// Process-wide file-system effect log (hook H2), filtered by directory prefix.
pub static FS_LOG: Mutex<Vec<(String, String, bool)>> = Mutex::new(Vec::new());
static FS_HOOK_INSTALLED: AtomicBool = AtomicBool::new(false);

pub fn install_fs_log() {
    if FS_HOOK_INSTALLED.swap(true, Ordering::SeqCst) {
        return;
    }
    locustdb::verif::set_fs_hook(Some(Arc::new(|kind, path, after| {
        FS_LOG.lock().unwrap().push((kind.to_string(), path.to_string_lossy().to_string(), after));
    })));
}

fn check_quiescent(w: &World, ops: &[Op], created_minus_removed: &BTreeSet<String>, out: &mut CaseOut, case: &serde_json::Value, max_files_seen: &mut usize) {
    let root = w.db.path.clone().unwrap();
    let listing: BTreeSet<String> = list_files(&root).into_iter().collect();
    let expected = expected_files(w);
    out.eval(1);
    *max_files_seen = (*max_files_seen).max(listing.len());
    let extra: Vec<&String> = listing.difference(&expected).collect();
    let missing: Vec<&String> = expected.difference(&listing).collect();
    if !extra.is_empty() {
        let kind = if extra.iter().any(|f| f.contains("INCOMPLETE")) {
            "temporary_file_left"
        } else if extra.iter().any(|f| f.starts_with("wal/")) {
            "wal_segment_left"
        } else {
            "orphan_partition_file_left"
        };
        out.fail(Failure::new("fileset", kind, "after_flush", format!("after '{}': files not referenced by the catalogue: {:?}", history_string(ops), extra.iter().take(5).collect::<Vec<_>>()), case.clone()));
    }
    if !missing.is_empty() {
        out.fail(Failure::new("fileset", "referenced_file_missing", "after_flush", format!("after '{}': catalogue refers to missing files: {:?}", history_string(ops), missing.iter().take(5).collect::<Vec<_>>()), case.clone()));
    }
    let (lo, hi, wal_size) = w.db.handle().verif_wal();
    out.eval(1);
    if wal_size != 0 {
        out.fail(Failure::new("fileset", "wal_size_not_reset", "after_flush", format!("after '{}': accounted WAL size is {} (ids {}..{})", history_string(ops), wal_size, lo, hi), case.clone()));
    }
    // conservation: files created (renamed into place) minus files removed, per the effect log, is what is present
    out.eval(1);
    if created_minus_removed != &listing {
        let a: Vec<&String> = created_minus_removed.symmetric_difference(&listing).take(5).collect();
        out.fail(Failure::new("fileset", "conservation", "after_flush", format!("after '{}': created-removed differs from directory listing: {:?}", history_string(ops), a), case.clone()));
    }
}

fn effects_for(root: &str, from: usize, present: &mut BTreeSet<String>) -> usize {
    let log = FS_LOG.lock().unwrap();
    for (kind, path, after) in log.iter().skip(from) {
        if !*after || !path.starts_with(root) {
            continue;
        }
        let rel = path[root.len()..].trim_start_matches('/').to_string();
        match kind.as_str() {
            "rename" => {
                present.insert(rel);
            }
            "remove" => {
                present.remove(&rel);
            }
            _ => {}
        }
    }
    log.len()
}

fn run_history(id: String, seed: u64, len: usize, cfg: DbCfg, out: &mut CaseOut, op: &OpCell) {
    install_fs_log();
    let mut rng = Rng::derive(seed, &id, 0);
    let mut w = World::open(&cfg, Via::Wire, op);
    let root = w.db.path.clone().unwrap().to_string_lossy().to_string();
    let mut present = BTreeSet::new();
    let mut log_pos = FS_LOG.lock().unwrap().len();
    let mut ops = Vec::new();
    let case = json!({"cfg": cfg.to_json(), "len": len});
    let mut req = 0u64;
    let mut max_files = 0usize;
    let mut flushes = 0;
    for step in 0..len {
        let o = if step == 0 || rng.chance(0.6) {
            req += 1;
            let t = *rng.pick(&["ta", "tb", "Tc/odd name"]);
            let rows = 1 + rng.below(40);
            let mut bs = vec![mk_batch(t, req, rows, &mut rng)];
            if rng.chance(0.2) {
                bs.push(mk_batch("tz", req, 3, &mut rng));
            }
            Op::Ingest(bs)
        } else {
            Op::Flush
        };
        w.apply(&o);
        ops.push(o.clone());
        if matches!(o, Op::Flush) || step + 1 == len {
            if !matches!(o, Op::Flush) {
                w.apply(&Op::Flush);
                ops.push(Op::Flush);
            }
            flushes += 1;
            log_pos = effects_for(&root, log_pos, &mut present);
            check_quiescent(&w, &ops, &present, out, &case, &mut max_files);
        }
    }
    // boundedness: number of files never exceeds 1 + number of sub-partitions in the catalogue at that point
    out.distinct(format!("flushes={}|factor={}|subpart={}|io={}|ct={}|files<={}", flushes.min(8), cfg.partition_combine_factor, cfg.max_partition_size_bytes, cfg.io_threads, cfg.wal_flush_compaction_threads, (max_files / 4) * 4));
    if id.ends_with('5') {
        out.sample(json!({"history": history_string(&ops), "files_at_end": list_files(w.db.path.as_ref().unwrap()).into_iter().take(12).collect::<Vec<_>>()}));
    }
}

/// Ingestion held back by max_wal_size_bytes must proceed once the (background) flush has run.
fn run_blocked_ingest(id: String, seed: u64, cfg: DbCfg, out: &mut CaseOut, op: &OpCell) {
    let mut rng = Rng::derive(seed, &id, 0);
    let w = World::open(&cfg, Via::Wire, op);
    let db = w.db.handle().clone();
    let n = 6;
    let done = Arc::new(Mutex::new(Vec::<Duration>::new()));
    let batches: Vec<_> = (0..n).map(|i| mk_batch("ta", i as u64 + 1, 30, &mut rng)).collect();
    let d2 = done.clone();
    let h = std::thread::spawn(move || {
        for b in batches {
            let t = Instant::now();
            poll_to_completion(db.ingest_efficient(event_buffer(&[b], Via::Wire)));
            d2.lock().unwrap().push(t.elapsed());
        }
    });
    op.set("ingest (blocked by max_wal_size_bytes until the background flush runs)");
    let _ = h.join();
    op.set("");
    let times = done.lock().unwrap().clone();
    out.eval(times.len() as u64);
    let blocked = times.iter().filter(|t| **t > Duration::from_millis(50)).count();
    out.count("ingests_that_had_to_wait_for_a_flush", blocked as u64);
    out.count("ingests_completed_under_wal_limit", times.len() as u64);
    if times.len() == n {
        out.distinct(format!("blocked_ingest|waited={}|limit={}", blocked.min(6), cfg.max_wal_size_bytes));
    }
    w.db.flush();
    let (_, _, wal_size) = w.db.handle().verif_wal();
    out.eval(1);
    if wal_size != 0 {
        out.fail(Failure::new("fileset", "wal_size_not_reset", "blocked_ingest", format!("accounted WAL size {} after the final flush", wal_size), json!({"cfg": cfg.to_json()})));
    }
}

pub fn run(ctx: &mut Ctx) {
    let n = ctx.pick(480u64, 20000);
    for i in 0..n {
        if i >= 480 && ctx.out_of_time() {
            break;
        }
        let id = format!("flush-{}", i);
        if !ctx.take(&id) {
            continue;
        }
        let mut rng = Rng::derive(ctx.seed, &id, 5);
        let cfg = DbCfg {
            disk: true,
            partition_combine_factor: [0u64, 1, 4, 999][(i % 4) as usize],
            max_partition_size_bytes: *rng.pick(&[1u64, 4096, 8 << 20]),
            io_threads: *rng.pick(&[1usize, 4]),
            wal_flush_compaction_threads: *rng.pick(&[1usize, 3]),
            ..DbCfg::default()
        };
        let len = 10 + rng.below(ctx.pick(30, 190));
        let seed = ctx.seed;
        let idc = id.clone();
        ctx.run(&id, "ingest+flush", json!({"len": len, "cfg": cfg.to_json()}), move |out, op| run_history(idc, seed, len, cfg, out, op));
    }
    for i in 0..ctx.pick(8u64, 60) {
        let id = format!("blocked-{}", i);
        if !ctx.take(&id) {
            continue;
        }
        let cfg = DbCfg { disk: true, max_wal_size_bytes: [0u64, 100, 100, 1000][(i % 4) as usize], partition_combine_factor: [1u64, 999][(i % 2) as usize], ..DbCfg::default() };
        let seed = ctx.seed;
        let idc = id.clone();
        ctx.run(&id, "blocked-ingest", json!({"cfg": cfg.to_json()}), move |out, op| run_blocked_ingest(idc, seed, cfg, out, op));
    }
}
