//! C05 — ORDER BY, LIMIT and OFFSET return the right rows in the right order.
use serde_json::json;

use crate::ctx::Ctx;
use crate::drive::DbCfg;
use crate::guard::OpCell;
use crate::model::{LTable, V};
use crate::props::c03::setup;
use crate::qcheck::{self, RefAnswer, Verdict};
use crate::report::CaseOut;
use crate::rng::Rng;
use crate::sql::{bin, col, Op, E, Q};
use crate::tables::{coldef, make_table, random_splits, ColDef, Realisation};

pub fn sort_columns() -> Vec<ColDef> {
    vec![
        coldef("k_u8", "int", "u8", 0.0),
        coldef("k_u8n", "int", "u8", 0.3),
        coldef("k_off", "int", "u8_off", 0.0),
        coldef("k_neg", "int", "u8_neg", 0.2),
        coldef("k_u16", "int", "u16", 0.0),
        coldef("k_big", "int", "i64_full", 0.0),
        coldef("k_bign", "int", "i64_full", 0.2),
        coldef("k_ties", "int", "small_mixed_sign", 0.0),
        coldef("k_const", "int", "const", 0.0),
        coldef("k_f", "float", "f32_exact", 0.0),
        coldef("k_fn", "float", "int_valued", 0.3),
        coldef("k_s", "str", "short_lowcard", 0.0),
        coldef("k_sn", "str", "short_lowcard", 0.3),
        coldef("k_sp", "str", "short_highcard", 0.0),
        coldef("k_hex", "str", "lhex_long", 0.0),
    ]
}

const KEYS: &[&str] = &["k_u8", "k_u8n", "k_off", "k_neg", "k_u16", "k_big", "k_bign", "k_ties", "k_const", "k_f", "k_fn", "k_s", "k_sn", "k_sp", "k_hex", "id"];

fn key_kind(table: &LTable, e: &E) -> String {
    let ann = qcheck::annotate(table);
    match e {
        E::Col(c) => ann.get(c).copied().unwrap_or("none").to_string(),
        _ => "expr".into(),
    }
}

pub fn gen_order_query(rng: &mut Rng, table: &LTable, parts: &[usize]) -> (Q, String) {
    let mut q = Q::new(&table.name);
    q.select.push((col("id"), None));
    let nk = *rng.pick(&[0usize, 1, 1, 1, 2, 2, 3]);
    let mut labels = Vec::new();
    for _ in 0..nk {
        let c = *rng.pick(KEYS);
        let e = if (c == "k_u16" || c == "k_off") && rng.chance(0.2) { bin(Op::Div, col(c), E::Int(10)) } else { col(c) };
        if q.order_by.iter().any(|o| o.0 == e) {
            continue;
        }
        let desc = rng.chance(0.45);
        labels.push(format!("{}{}", key_kind(table, &e), if desc { "v" } else { "^" }));
        q.order_by.push((e.clone(), desc));
        if rng.chance(0.7) && !q.select.iter().any(|s| s.0 == e) {
            q.select.push((e, None));
        }
    }
    if rng.chance(0.25) {
        let k = rng.range(0, 255);
        q.filter = Some(bin(*rng.pick(&[Op::Lt, Op::Ge, Op::Ne]), col("k_u8"), E::Int(k)));
        labels.push("where".into());
    }
    let n = table.len as u64;
    let l = parts.iter().copied().max().unwrap_or(1) as u64;
    let cands = [0u64, 1, 2, (l / 2).saturating_sub(1), l / 2, l / 2 + 1, l.saturating_sub(1), l, l + 1, n.saturating_sub(1), n, n + 1, n + 2];
    let mut pos = String::new();
    if rng.chance(0.85) {
        let lim = *rng.pick(&cands);
        q.limit = Some(lim);
        pos.push_str(&format!("L{}", classify_pos(lim, l, n)));
        if rng.chance(0.5) {
            let off = *rng.pick(&cands);
            q.offset = Some(off);
            pos.push_str(&format!("O{}", classify_pos(off, l, n)));
        }
    }
    (q, format!("{}|{}", labels.join(","), pos))
}

fn classify_pos(x: u64, l: u64, n: u64) -> &'static str {
    if x == 0 {
        "0"
    } else if x + 1 < l / 2 {
        "<L/2"
    } else if x <= l / 2 + 1 {
        "~L/2"
    } else if x + 1 < l {
        "<L"
    } else if x <= l + 1 {
        "~L"
    } else if x + 1 < n {
        "<N"
    } else if x <= n {
        "~N"
    } else {
        ">N"
    }
}

pub fn diagnose(mq: &Q, _mode: &str, _got: &Result<crate::drive::QOut, crate::drive::QErr>, table: &LTable, long_partition: bool) -> Option<String> {
    if mq.order_by.is_empty() {
        return None;
    }
    let mut kinds: Vec<String> = mq.order_by.iter().map(|(e, d)| format!("{}{}", key_kind(table, e), if *d { "v" } else { "^" })).collect();
    let nk = kinds.len();
    if nk > 1 && kinds.iter().any(|k| k.contains('?') || k.contains('~')) {
        // rows whose leading key is NULL are not ordered by the remaining keys
        return Some("multi_key_order_with_nullable_key".into());
    }
    if nk > 1 {
        kinds.sort();
        kinds.dedup();
    }
    Some(format!(
        "order:k{}[{}]{}{}{}{}",
        nk.min(2),
        kinds.join(","),
        if mq.filter.is_some() { "+where" } else { "" },
        if mq.limit.is_some() { "+limit" } else { "" },
        if mq.offset.is_some() { "+offset" } else { "" },
        if long_partition { "+long" } else { "" }
    ))
}

fn paths_of(plans: &[String]) -> Vec<&'static str> {
    let mut v = Vec::new();
    for p in plans {
        for (needle, name) in [("top_n", "top_n"), ("sort_by", "sort_by"), ("merge_keep", "merge_keep"), ("merge_partitioned", "merge_partitioned"), ("subpartition", "subpartition"), ("merge(", "merge"), ("partition(", "partition"), ("fuse_nulls", "fuse_nulls"), ("sort_by_slices", "sort_by_slices"), ("sort_by_val_rows", "sort_by_val_rows")] {
            if p.contains(needle) && !v.contains(&name) {
                v.push(name);
            }
        }
    }
    v
}

fn run_case(id: String, seed: u64, n: usize, parts: usize, nq: usize, disk: bool, out: &mut CaseOut, op: &OpCell) {
    let mut rng = Rng::derive(seed, &id, 0);
    let splits = random_splits(n, parts, &mut rng);
    let gt = make_table("t", &sort_columns(), &splits, &mut rng);
    let mut real = Realisation::partitions(&splits, 2);
    if rng.chance(0.3) {
        *real.flush_after.last_mut().unwrap() = false;
    }
    if disk {
        real.cfg = DbCfg { disk: true, partition_combine_factor: 999, ..DbCfg::default() };
        real.evict = true;
    }
    let long = splits.iter().any(|s| *s > real.cfg.batch_size);
    let case = json!({"n": n, "splits": splits, "realisation": real.to_json()});
    let mut env = setup(gt, &real, &mut rng, op);
    let mut sampled = false;
    for _ in 0..nq {
        let (q, label) = gen_order_query(&mut rng, &env.gt.table, &splits);
        let table = &env.gt.table;
        let nontrivial = match qcheck::reference(&q, table) {
            RefAnswer::Ordered { all, offset, limit, .. } => all.len() > 1 && offset < all.len() && limit > 0,
            RefAnswer::Sequence { rows, .. } => !rows.is_empty(),
            _ => false,
        };
        let v = qcheck::check_diag(&q, table, &env.db, &mut env.probe, out, "orderby", "order", &case, &|mq, mode, got, t| diagnose(mq, mode, got, t, long));
        if let Some(Verdict::Agree) = v {
            if nontrivial {
                let paths = match env.db.query_opts(&q.sql(), true, false) {
                    Ok(o) => paths_of(&o.plans),
                    Err(_) => vec![],
                };
                for p in &paths {
                    out.set("sort_paths", p.to_string());
                }
                out.distinct(format!("{}|parts:{}|{}", label, parts, paths.join("+")));
                out.count("nontrivial_agree", 1);
                if !sampled {
                    sampled = true;
                    out.sample(json!({"sql": q.sql(), "rows": n, "splits": splits}));
                }
            }
        }
    }
    out.count("supported_shapes", env.probe.supported_shapes);
    out.count("unsupported_shapes", env.probe.unsupported_shapes);
    let _ = V::Null;
}

pub fn run(ctx: &mut Ctx) {
    let ncases = ctx.pick(144u64, 1500);
    let nq = ctx.pick(70usize, 90);
    for i in 0..ncases {
        if i >= 48 && ctx.out_of_time() {
            break;
        }
        let id = format!("order-{}", i);
        if !ctx.take(&id) {
            continue;
        }
        let n = [40usize, 200, 600, 2600][(i % 4) as usize];
        let parts = 1 + (i % 5) as usize;
        let disk = i % 6 == 5;
        let seed = ctx.seed;
        let idc = id.clone();
        ctx.run(&id, "orderby-query", json!({"n": n, "parts": parts}), move |out, op| run_case(idc, seed, n, parts, nq, disk, out, op));
    }
}
