//! C11 — every call completes; a failing request does not damage the database.
//!
//! Liveness is restated as bounded progress (progress monitor of the guard). After every failing request the
//! database must still answer a canary query correctly, flush, ingest, and have all its workers (census).
use std::sync::atomic::{AtomicBool, AtomicUsize, Ordering};
use std::sync::Arc;
use std::time::{Duration, Instant};

use serde_json::json;

use crate::ctx::Ctx;
use crate::drive::{Db, DbCfg, Via};
use crate::gen;
use crate::guard::{self, OpCell};
use crate::model::{Batch, ColRepr, V};
use crate::props::c12::UNSUPPORTED;
use crate::report::{CaseOut, Failure};
use crate::rng::Rng;
use crate::tables::{batch_of, make_table, standard_columns};

static CENSUS_ACTIVE: AtomicBool = AtomicBool::new(false);
static CENSUS_TARGET: AtomicUsize = AtomicUsize::new(0);
static CENSUS_ARRIVED: AtomicUsize = AtomicUsize::new(0);
static HOOKED: AtomicBool = AtomicBool::new(false);

fn install_hook() {
    if HOOKED.swap(true, Ordering::SeqCst) {
        return;
    }
    locustdb::verif::set_sync_hook(Some(Arc::new(|label, _| {
        if label == "query:before_partition" && CENSUS_ACTIVE.load(Ordering::SeqCst) {
            CENSUS_ARRIVED.fetch_add(1, Ordering::SeqCst);
            let start = Instant::now();
            // hold this worker until all expected workers are here (possible iff that many are alive)
            while CENSUS_ARRIVED.load(Ordering::SeqCst) < CENSUS_TARGET.load(Ordering::SeqCst) && start.elapsed() < Duration::from_millis(1500) && CENSUS_ACTIVE.load(Ordering::SeqCst) {
                std::thread::sleep(Duration::from_micros(200));
            }
        }
    })));
}

/// Number of workers that can be held inside a query simultaneously.
fn census(db: &Arc<locustdb::LocustDB>, threads: usize) -> usize {
    CENSUS_ARRIVED.store(0, Ordering::SeqCst);
    CENSUS_TARGET.store(threads, Ordering::SeqCst);
    CENSUS_ACTIVE.store(true, Ordering::SeqCst);
    let mut hs = Vec::new();
    for _ in 0..threads {
        let db = db.clone();
        hs.push(std::thread::spawn(move || {
            let _ = futures::executor::block_on(db.run_query("SELECT COUNT(0) FROM canary", false, false, vec![]));
        }));
    }
    for h in hs {
        let _ = h.join();
    }
    CENSUS_ACTIVE.store(false, Ordering::SeqCst);
    CENSUS_ARRIVED.load(Ordering::SeqCst).min(threads)
}

fn canary_ok(db: &Db, expect_rows: i64, expect_sum: i64) -> Result<(), String> {
    match db.query_opts("SELECT COUNT(0), SUM(uid) FROM canary", false, true) {
        Ok(q) => {
            let row: Vec<V> = q.cols.iter().map(|c| c.1.first().cloned().unwrap_or(V::Null)).collect();
            if row == vec![V::Int(expect_rows), V::Int(expect_sum)] {
                Ok(())
            } else {
                Err(format!("canary returned {:?}, expected [{}, {}]", row.iter().map(|v| v.short()).collect::<Vec<_>>(), expect_rows, expect_sum))
            }
        }
        Err(e) => Err(format!("canary failed: {} {}", e.kind, e.msg)),
    }
}

fn failing_requests() -> Vec<String> {
    let mut v: Vec<String> = UNSUPPORTED.iter().map(|s| s.to_string()).collect();
    v.extend(
        [
            "SELECT id FROM t WHERE s_dict + 1 > 2",
            "SELECT id FROM t WHERE i_u8 = 'str'",
            "SELECT regex(i_u8, 'x') FROM t",
            "SELECT i_big * i_big FROM t",
            "SELECT i_big + i_big + i_big FROM t",
            "SELECT SUM(i_big) FROM t",
            "SELECT i_u8 / (i_u8 - i_u8) FROM t",
            "SELECT i_u8 % (i_u8 - i_u8) FROM t",
            "SELECT id FROM t LIMIT 5 OFFSET 100000",
            "SELECT id FROM t ORDER BY id LIMIT 0",
            "SELECT MIN(i_u8), MAX(i_u8), COUNT(i_u8) FROM t WHERE i_u8 > 100000",
            "SELECT SUM(nonexistent) FROM t",
            "SELECT id FROM t WHERE nonexistent > 3",
            "SELECT id FROM \"_meta_columns_nonexistent\"",
            "SELECT * FROM \"_meta_columns_t\" WHERE regex(column_name, '(')",
            "SELECT SUM(v) FROM ovf",
            "SELECT g, SUM(v) FROM ovf",
            "SELECT SUM(v), COUNT(0) FROM ovf WHERE v > 0",
            "SELECT v + v + v + v FROM ovf",
            "SELEC id FROM t",
            "SELECT id FROM t WHERE (((",
            "SELECT id FROM t ORDER BY",
        ]
        .iter()
        .map(|s| s.to_string()),
    );
    v
}

const VALID: &[&str] = &[
    "SELECT id, i_u8 FROM t WHERE i_u8 < 100",
    "SELECT COUNT(0), SUM(i_u8) FROM t",
    "SELECT s_dict, COUNT(0) FROM t",
    "SELECT id FROM t ORDER BY i_off DESC LIMIT 7",
    "SELECT * FROM t LIMIT 3",
    "SELECT i_u8 + 1, i_off * 2 FROM t WHERE s_pack <> 'zzz'",
];

fn run_sequence(id: String, seed: u64, threads: usize, clients: usize, steps: usize, disk: bool, out: &mut CaseOut, op: &OpCell) {
    install_hook();
    let mut rng = Rng::derive(seed, &id, 0);
    let cfg = DbCfg { disk, threads, partition_combine_factor: *rng.pick(&[999u64, 999, 4, 1]), mem_lz4: rng.chance(0.5), ..DbCfg::default() };
    let db = Db::open(&cfg, op);
    // content that drives many encoding branches of flush/compaction + a single-partition canary
    let splits = vec![60, 70];
    let gt = make_table("t", &standard_columns(), &splits, &mut rng);
    db.ingest(&[batch_of(&gt.table, 0, 60, true)], Via::Wire);
    db.flush();
    db.ingest(&[batch_of(&gt.table, 60, 130, true)], Via::Wire);
    // four partitions whose SUM overflows only when the last partial results are merged (error in the final merge)
    for p in 0..4i64 {
        let b = Batch { table: "ovf".into(), rows: 3, cols: vec![("v".into(), ColRepr::I64(vec![(1i64 << 61) + p, 1, 2])), ("g".into(), ColRepr::I64(vec![0, 1, 1]))] };
        db.ingest(&[b], Via::Wire);
        db.flush();
    }
    let canary = Batch { table: "canary".into(), rows: 10, cols: vec![("uid".into(), ColRepr::I64((1..=10).collect()))] };
    db.ingest(&[canary], Via::Wire);
    db.flush();
    let (crows, csum) = (10i64, 55i64);
    let case = json!({"threads": threads, "clients": clients, "cfg": cfg.to_json()});
    // which failing requests return an error value (rather than killing a worker: those are reported by the panic monitor)
    let handle = db.handle().clone();
    let failing = failing_requests();
    let mut next_uid = 1000i64;
    let mut since_census = 0;
    for step in 0..steps {
        let fail_now = rng.chance(0.5);
        let sql = if fail_now { rng.pick(&failing).clone() } else { rng.pick(VALID).to_string() };
        // the request itself, possibly issued from several client threads at once
        let k = 1 + rng.below(clients);
        let before = guard::peek_panics().len();
        let results: Vec<Result<(), String>> = {
            let mut hs = Vec::new();
            for _ in 0..k {
                let h2 = handle.clone();
                let s2 = sql.clone();
                hs.push(std::thread::spawn(move || match futures::executor::block_on(h2.run_query(&s2, false, true, vec![])) {
                    Ok(_) => Ok(()),
                    Err(e) => Err(crate::drive::qerr(&e).kind.to_string()),
                }));
            }
            op.set(&format!("query {}", sql));
            let r = hs.into_iter().map(|h| h.join().unwrap_or(Err("client thread panicked".into()))).collect();
            op.set("");
            r
        };
        out.eval(1);
        let killed_worker = guard::peek_panics().len() > before || results.iter().any(|r| matches!(r, Err(k) if k == "Canceled"));
        if killed_worker {
            // the panic monitor reports the site; restore the pool so that the rest of the sequence is meaningful
            handle.recover();
            out.count("requests_that_killed_a_worker", 1);
            continue;
        }
        let failed = results.iter().any(|r| r.is_err());
        if failed {
            out.count("failing_requests", 1);
            out.set("error_kinds", results.iter().filter_map(|r| r.as_ref().err().cloned()).next().unwrap_or_default());
        } else {
            out.count("valid_requests", 1);
        }
        // follow-ups after every request that failed: the database must be fully able to serve
        if failed {
            out.eval(1);
            if let Err(e) = canary_ok(&db, crows, csum) {
                out.fail(Failure::new("service", "canary_wrong_after_failing_request", "canary", format!("after failing request '{}': {}", sql, e), case.clone()));
            }
            since_census += 1;
            if since_census >= 3 || step + 1 == steps {
                since_census = 0;
                out.eval(1);
                let alive = census(&handle, threads);
                out.count("censuses", 1);
                if alive < threads {
                    out.fail(Failure::new("service", "worker_lost", &format!("threads={}", threads), format!("after failing request '{}': only {} of {} workers could be held in a query at the same time", sql, alive, threads), case.clone()));
                    handle.recover();
                } else {
                    out.distinct(format!("census_ok|threads={}|clients={}|after={}", threads, k, crate::qcheck::trunc(&sql, 40)));
                }
            }
            if rng.chance(0.3) {
                // ingestion and flush still work
                let b = Batch { table: "more".into(), rows: 2, cols: vec![("uid".into(), ColRepr::I64(vec![next_uid, next_uid + 1]))] };
                next_uid += 2;
                db.ingest(&[b], Via::Wire);
                db.flush();
                out.eval(1);
                out.count("flushes_after_failing_request", 1);
                let _ = futures::executor::block_on(handle.table_stats());
                let _ = futures::executor::block_on(handle.mem_tree(2, None));
            }
        }
    }
    // everything ingested into `more` is there
    out.eval(1);
    match db.query_opts("SELECT COUNT(0) FROM more", false, true) {
        Ok(q) => {
            let n = q.cols.first().and_then(|c| c.1.first().cloned());
            if next_uid > 1000 && n != Some(V::Int(next_uid - 1000)) {
                out.fail(Failure::new("service", "rows_lost_after_failing_requests", "more", format!("table 'more' has {:?} rows, {} were acknowledged", n.map(|v| v.short()), next_uid - 1000), case.clone()));
            }
        }
        Err(e) => {
            if next_uid > 1000 {
                out.fail(Failure::new("service", "query_fails_after_failing_requests", "more", format!("{} {}", e.kind, e.msg), case.clone()));
            }
        }
    }
    if id.ends_with('2') {
        out.sample(json!({"sequence": id, "threads": threads, "clients": clients, "steps": steps, "example_failing_requests": failing.iter().take(4).collect::<Vec<_>>()}));
    }
    let _ = gen::LENGTHS;
}

pub fn run(ctx: &mut Ctx) {
    let n = ctx.pick(96u64, 6000);
    for i in 0..n {
        if i >= 96 && ctx.out_of_time() {
            break;
        }
        let id = format!("seq-{}", i);
        if !ctx.take(&id) {
            continue;
        }
        let threads = [1usize, 2, 4, 8][(i % 4) as usize];
        let clients = [1usize, 2, 8][(i % 3) as usize];
        let disk = i % 2 == 0;
        let steps = ctx.pick(30usize, 60);
        let seed = ctx.seed;
        let idc = id.clone();
        ctx.run(&id, "request-sequence", json!({"threads": threads, "clients": clients, "disk": disk}), move |out, op| {
            run_sequence(idc, seed, threads, clients, steps, disk, out, op)
        });
    }
}
