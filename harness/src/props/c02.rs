//! C02 — query results do not depend on physical layout.
//!
//! The same logical table is realised in several physical layouts; every statement of a mixed battery must
//! give the same answer on all of them (and the reference answer where the reference makes a claim).
use serde_json::json;

use crate::ctx::Ctx;
use crate::drive::{list_files, DbCfg, QErr, QOut};
use crate::guard::OpCell;
use crate::model::{canon_cmp_rows, V};
use crate::props::c03::{self, col_stats, PredGen};
use crate::props::{c04, c05};
use crate::qcheck::{self, Probe, RefAnswer, Verdict};
use crate::report::{CaseOut, Failure};
use crate::rng::Rng;
use crate::sql::{bin, col, AggF, Op, E, Q};
use crate::tables::{canonical_table, make_table, random_splits, realise, standard_columns, Realisation};

fn realisations(n: usize, k: usize, rng: &mut Rng) -> Vec<Realisation> {
    let mut v = vec![Realisation::single_buffer(n)];
    let factors = [0u64, 1, 4, 999];
    let subparts = [1u64, 64, 4096, 8 << 20];
    let batch_sizes = [8usize, 16, 64, 1024];
    let threads = [1usize, 2, 8];
    for i in 0..k {
        let parts = 1 + rng.below(6);
        let splits = random_splits(n, parts, rng);
        let disk = i % 2 == 1;
        let cfg = DbCfg {
            disk,
            threads: threads[(i + rng.below(3)) % 3],
            partition_combine_factor: factors[(i + rng.below(4)) % 4],
            mem_lz4: rng.chance(0.5),
            max_partition_size_bytes: subparts[(i + rng.below(4)) % 4],
            batch_size: batch_sizes[(i + rng.below(4)) % 4],
            ..DbCfg::default()
        };
        let flush_after: Vec<bool> = (0..splits.len()).map(|j| j + 1 < splits.len() && rng.chance(0.7) || (j + 1 == splits.len() && rng.chance(0.5))).collect();
        v.push(Realisation { name: format!("r{}", i), cfg, splits, flush_after, evict: disk && rng.chance(0.6), restart: disk && rng.chance(0.4) });
    }
    v
}

fn battery(rng: &mut Rng, table: &crate::model::LTable, nq: usize) -> Vec<(Q, &'static str)> {
    let stats = col_stats(table);
    let pg = PredGen::new(&stats);
    let mut v = Vec::new();
    for i in 0..nq {
        let mut q = Q::new(&table.name);
        match i % 5 {
            0 => {
                q.select.push((col("id"), None));
                let pc = rng.pick(&pg.cols).clone();
                q.select.push((col(&pc), None));
                v.push((q, "plain"));
            }
            1 => {
                q.select.push((col("id"), None));
                let (p, _) = pg.tree(rng.below(3), rng);
                q.filter = Some(p);
                v.push((q, "filter"));
            }
            2 => {
                // single non-null key or group-less aggregates (the multi-key / nullable-key regime is C04's known-finding area)
                if rng.chance(0.6) {
                    q.select.push((col(*rng.pick(&["s_dict", "i_u8", "i_small", "s_num"])), None));
                }
                let f = *rng.pick(&[AggF::Count, AggF::Sum, AggF::Min, AggF::Max]);
                q.select.push((E::Agg(f, Box::new(col(*rng.pick(&["i_u8", "i_off", "i_u16", "f_half", "i_u32"])))), None));
                v.push((q, "groupby"));
            }
            3 => {
                q.select.push((col("id"), None));
                let k = *rng.pick(&["i_u8", "i_off", "i_big", "f_half", "s_dict", "s_pack", "i_u16"]);
                q.order_by.push((col(k), rng.chance(0.5)));
                q.select.push((col(k), None));
                q.limit = Some(*rng.pick(&[1u64, 5, 40, 100000]));
                if rng.chance(0.4) {
                    q.offset = Some(*rng.pick(&[1u64, 7, 50]));
                }
                v.push((q, "orderby"));
            }
            _ => {
                q.select.push((col("id"), None));
                let a = *rng.pick(&["i_u8", "i_off", "i_neg", "i_u16", "i_u32", "i_small"]);
                let b = *rng.pick(&["i_u8", "i_off", "i_u16", "i_small"]);
                let op = *rng.pick(&[Op::Add, Op::Sub, Op::Mul, Op::Div, Op::Mod]);
                q.select.push((bin(op, col(a), if rng.chance(0.5) { col(b) } else { E::Int(*rng.pick(&[0i64, 1, 7, -3, 256, 1 << 33])) }), None));
                v.push((q, "arith"));
            }
        }
    }
    v
}

fn normalise(q: &Q, r: &Result<QOut, QErr>) -> Result<Vec<Vec<V>>, String> {
    match r {
        Ok(o) => {
            let mut rows = o.rows_from_cols();
            if q.is_agg() && q.order_by.is_empty() {
                rows.sort_by(|a, b| canon_cmp_rows(a, b));
            }
            Ok(rows)
        }
        Err(e) => Err(e.kind.to_string()),
    }
}

fn rows_equal(a: &[Vec<V>], b: &[Vec<V>], float_tol: bool) -> bool {
    a.len() == b.len()
        && a.iter().zip(b.iter()).all(|(x, y)| {
            x.len() == y.len()
                && x.iter().zip(y.iter()).all(|(p, q)| match (p, q) {
                    (V::Float(f), V::Float(g)) if float_tol => (f - g).abs() <= 1e-9 * f.abs().max(g.abs()) + 1e-300 || f.to_bits() == g.to_bits(),
                    _ => crate::sql::cell_eq(p, q, 0.0) || crate::sql::cell_eq(q, p, 0.0),
                })
        })
}

fn run_case(id: String, seed: u64, n: usize, k: usize, nq: usize, out: &mut CaseOut, op: &OpCell) {
    let mut rng = Rng::derive(seed, &id, 0);
    let defs = standard_columns();
    // the logical table is fixed first (its batch structure decides which columns are absent where)
    let base_splits = random_splits(n, 3, &mut rng);
    let gt = make_table("t", &defs, &base_splits, &mut rng);
    let reals = realisations(n, k, &mut rng);
    let canon = canonical_table("canon", &defs, &mut rng);
    let cdb = realise(&canon, &Realisation::single_buffer(canon.len), op);
    let mut probe = Probe::new(canon, cdb);
    let queries = battery(&mut rng, &gt.table, nq);
    let dbs: Vec<_> = reals.iter().map(|r| realise(&gt.table, r, op)).collect();
    // layout coverage from public observations
    for (r, db) in reals.iter().zip(dbs.iter()) {
        let stats = db.table_stats();
        let parts = stats.iter().find(|s| s.0 == "t").map(|s| s.2).unwrap_or(0);
        let files = db.path.as_ref().map(|p| list_files(p).len()).unwrap_or(0);
        out.set("layouts", format!("parts={}|files={}|disk={}|lz4={}|factor={}|subpart={}|batch={}|threads={}|evict={}|restart={}", parts.min(7), files.min(9), r.cfg.disk, r.cfg.mem_lz4, r.cfg.partition_combine_factor, r.cfg.max_partition_size_bytes, r.cfg.batch_size, r.cfg.threads, r.evict, r.restart));
        for v in ["factor", "subpart", "batch", "threads"] {
            let val = match v {
                "factor" => r.cfg.partition_combine_factor as usize,
                "subpart" => r.cfg.max_partition_size_bytes as usize,
                "batch" => r.cfg.batch_size,
                _ => r.cfg.threads,
            };
            out.set("option_values", format!("{}={}", v, val));
        }
    }
    let case = json!({"n": n, "realisations": reals.iter().map(|r| r.to_json()).collect::<Vec<_>>()});
    let mut sampled = false;
    for (q, family) in &queries {
        let refa = qcheck::reference(q, &gt.table);
        let has_claim = !matches!(refa, RefAnswer::IllTyped(_) | RefAnswer::Ambiguous);
        let mut answers = Vec::new();
        for (ri, db) in dbs.iter().enumerate() {
            let long = reals[ri].splits.iter().any(|s| *s > reals[ri].cfg.batch_size);
            let oracle = match *family {
                "filter" => "filter",
                "groupby" => "groupby",
                "orderby" => "orderby",
                "arith" => "arith",
                _ => "plain",
            };
            let fam = *family;
            c03::set_layout(&reals[ri]);
            let v = qcheck::check_diag(q, &gt.table, db, &mut probe, out, oracle, "layout", &case, &|mq, mode, got, t| match fam {
                "filter" => c03::diagnose(mq, mode, got, t),
                "groupby" => c04::diagnose_ctx(mq, mode, got, t, long),
                "orderby" => c05::diagnose(mq, mode, got, t, long),
                _ => None,
            });
            if v.is_none() {
                break; // outside the fragment
            }
            if let Some(Verdict::Agree) = v {
                out.count(&format!("agree:{}", family), 1);
            }
            answers.push((ri, normalise(q, &db.query(&q.sql()))));
        }
        // pairwise: every realisation against the baseline. With a reference claim a difference is already reported
        // above (with shrinking); without one, this is the only oracle.
        if let Some((_, base)) = answers.first() {
            for (ri, a) in answers.iter().skip(1) {
                out.eval(1);
                let same = match (base, a) {
                    (Ok(x), Ok(y)) => rows_equal(x, y, q.is_agg()),
                    (Err(x), Err(y)) => x == y,
                    // an error value on one layout only: the layouts differ in nullability/absence per partition, which the
                    // engine types differently; counted, not judged
                    _ => {
                        out.count("error_on_one_layout_only", 1);
                        true
                    }
                };
                if same {
                    out.count("pairs_equal", 1);
                    let r = &reals[*ri];
                    out.distinct(format!("{}|parts={}|disk={}|factor={}|batch={}|threads={}", family, r.splits.len(), r.cfg.disk, r.cfg.partition_combine_factor, r.cfg.batch_size, r.cfg.threads));
                } else if !has_claim {
                    out.fail(Failure::new("layout", "pairwise_differs", family, format!("{} :: baseline and realisation {} give different answers (the reference makes no claim for this statement)", q.sql(), reals[*ri].name), case.clone()));
                } else {
                    out.count("pairs_differ_with_reference_claim", 1);
                }
            }
        }
        if !sampled && answers.len() > 1 {
            sampled = true;
            out.sample(json!({"sql": q.sql(), "realisations": reals.iter().map(|r| format!("{}: splits={:?} flush_after={:?} disk={} factor={} batch={} threads={}", r.name, r.splits, r.flush_after, r.cfg.disk, r.cfg.partition_combine_factor, r.cfg.batch_size, r.cfg.threads)).collect::<Vec<_>>()}));
        }
    }
    out.count("supported_shapes", probe.supported_shapes);
}

pub fn run(ctx: &mut Ctx) {
    let ncases = ctx.pick(32u64, 800);
    let k = ctx.pick(4usize, 12);
    let nq = ctx.pick(40usize, 60);
    for i in 0..ncases {
        if i >= 32 && ctx.out_of_time() {
            break;
        }
        let id = format!("layout-{}", i);
        if !ctx.take(&id) {
            continue;
        }
        let n = [90usize, 300, 1400][(i % 3) as usize];
        let seed = ctx.seed;
        let idc = id.clone();
        ctx.run(&id, "layout", json!({"n": n, "k": k}), move |out, op| run_case(idc, seed, n, k, nq, out, op));
    }
}
