//! C15 — each column is found in the file it was written to, under any name.
use std::collections::{BTreeMap, BTreeSet};
use std::sync::Arc;

use locustdb::verif::{PartitionMetadata, SubpartitionMetadata};
use serde_json::json;

use crate::ctx::Ctx;
use crate::drive::{fresh_dir, list_files, Db, DbCfg, Via};
use crate::guard::OpCell;
use crate::model::{Batch, ColRepr, LTable, V};
use crate::props::c13::name_pool;
use crate::props::c14::build_column;
use crate::report::{CaseOut, Failure};
use crate::rng::Rng;

fn table_names() -> Vec<String> {
    vec![
        "plain".into(),
        "Plain".into(),
        "PLAIN".into(),
        ".".into(),
        "..".into(),
        "../escape".into(),
        "../../escape2".into(),
        "a/b".into(),
        "/abs".into(),
        "dots.in.name".into(),
        "...leading".into(),
        "-dash".into(),
        "ünïcode".into(),
        "表".into(),
        "with space".into(),
        "x".repeat(300),
        "x".repeat(299) + "y",
        "semi;colon".into(),
        "back\\slash".into(),
    ]
}

fn random_name(rng: &mut Rng) -> String {
    let alpha: Vec<char> = "abcXYZ019_-. /éß日".chars().collect();
    (0..1 + rng.below(12)).map(|_| *rng.pick(&alpha)).collect()
}

fn sql_usable(name: &str) -> bool {
    !name.is_empty() && !name.contains('"') && !name.contains('\\')
}

fn cell(col: usize, row: usize) -> V {
    match col % 3 {
        0 => V::Int((col * 1000 + row) as i64),
        1 => V::Str(format!("c{}r{}", col, row)),
        _ => V::Float(col as f64 + row as f64 / 8.0),
    }
}

fn run_case(id: String, seed: u64, subpart: u64, out: &mut CaseOut, op: &OpCell) {
    let mut rng = Rng::derive(seed, &id, 0);
    // the database lives in <sandbox>/db; nothing may ever be created in <sandbox> itself or above
    let sandbox = fresh_dir("c15box");
    let dbdir = sandbox.join("db");
    std::fs::create_dir_all(&dbdir).unwrap();
    let cfg = DbCfg { disk: true, max_partition_size_bytes: subpart, partition_combine_factor: *rng.pick(&[0u64, 999]), ..DbCfg::default() };
    let mut db = Db::open_at(&cfg, Some(dbdir.clone()), false, op);
    let mut pool = name_pool();
    for _ in 0..8 {
        pool.push(random_name(&mut rng));
    }
    pool.sort();
    pool.dedup();
    let tnames: Vec<String> = {
        let mut t = table_names();
        rng.shuffle(&mut t);
        t.truncate(5);
        t
    };
    let mut model: BTreeMap<String, LTable> = BTreeMap::new();
    let case = json!({"subpartition_bytes": subpart, "tables": tnames.iter().map(|t| crate::qcheck::trunc(t, 40)).collect::<Vec<_>>()});
    for t in &tnames {
        for b in 0..2 {
            let rows = 3 + rng.below(4);
            let cols: Vec<(usize, &String)> = pool.iter().enumerate().filter(|(i, _)| (i + b) % 2 == 0 || rng.chance(0.5)).collect();
            let mut bc = vec![("uid".to_string(), ColRepr::I64((0..rows as i64).map(|r| b as i64 * 100 + r).collect()))];
            for (ci, name) in cols {
                let vals: Vec<V> = (0..rows).map(|r| cell(ci, r + b * 10)).collect();
                bc.push((name.clone(), ColRepr::from_logical(&vals)));
            }
            let batch = Batch { table: t.clone(), rows, cols: bc };
            db.ingest(&[batch.clone()], Via::Wire);
            model.entry(t.clone()).or_insert_with(|| LTable::new(t)).append(&batch);
            db.flush();
        }
    }
    // cold instance
    db.restart(true);
    // every stored column one at a time, then never-stored neighbours
    for (t, lt) in &model {
        if !sql_usable(t) {
            continue;
        }
        let stored: Vec<&String> = lt.cols.keys().collect();
        let mut probes: Vec<(String, bool)> = stored.iter().map(|c| ((*c).clone(), true)).collect();
        for c in stored.iter().take(6) {
            probes.push((format!("{}_", c), false));
            let mut chars: Vec<char> = c.chars().collect();
            chars.pop();
            if !chars.is_empty() {
                probes.push((chars.iter().collect(), false));
            }
            probes.push((c.to_uppercase(), false));
        }
        probes.push((" before_everything".into(), false));
        probes.push(("~~~after_everything".into(), false));
        probes.push(("\u{10FFFF}last".into(), false));
        rng.shuffle(&mut probes);
        for (c, _) in probes.iter().take(24) {
            if !sql_usable(c) {
                continue;
            }
            let is_stored = lt.cols.contains_key(c);
            // a fresh cold instance for a third of the probes, so "absent without re-reading" is decided per file
            if rng.chance(0.12) {
                db.restart(false);
            }
            let q = db.query_opts(&format!("SELECT \"{}\" FROM \"{}\"", c, t), false, false);
            out.eval(1);
            match q {
                Ok(q) => {
                    let got = q.cols.first().map(|x| x.1.clone()).unwrap_or_default();
                    let want: Vec<V> = lt.cols.get(c).cloned().unwrap_or_else(|| vec![V::Null; lt.len]);
                    let ct = crate::model::join_type(&want);
                    let same = got.len() == want.len() && want.iter().zip(got.iter()).all(|(w, g)| crate::model::cell_matches(w, g, ct));
                    if !same {
                        let mode = if is_stored { "stored_column_reads_differently" } else { "absent_column_not_null" };
                        let pos = want.iter().zip(got.iter()).position(|(w, g)| !crate::model::cell_matches(w, g, ct));
                        out.fail(Failure::new("routing", mode, &format!("subpart={}", subpart), format!("table {:?} column {:?}: {} cells vs {} expected; first difference {:?}: got {:?} want {:?}", crate::qcheck::trunc(t, 30), c, got.len(), want.len(), pos, pos.map(|p| got[p].short()), pos.map(|p| want[p].short())), case.clone()));
                    } else {
                        out.distinct(format!("{}|subpart={}|cold={}|name_class={}", if is_stored { "stored" } else { "absent" }, subpart, q.disk_read_bytes > 0, name_class(c)));
                        if q.disk_read_bytes > 0 {
                            out.count("cold_column_reads", 1);
                        }
                    }
                }
                Err(e) => {
                    // an error value is not a wrong read; count it
                    out.count(&format!("query_errors:{}", e.kind), 1);
                }
            }
        }
    }
    // distinct tables never share a directory; nothing outside the database directory
    let files = list_files(&dbdir);
    let mut dirs: BTreeSet<String> = BTreeSet::new();
    for f in &files {
        if let Some(rest) = f.strip_prefix("tables/") {
            if let Some(d) = rest.split('/').next() {
                dirs.insert(d.to_string());
            }
        }
    }
    let ntables_with_files = model.len() + 1 + model.len(); // user tables + _meta_tables + _meta_columns_*
    out.eval(1);
    if dirs.len() != ntables_with_files {
        out.fail(Failure::new("routing", "tables_share_a_directory", "dirs", format!("{} table directories for {} tables: {:?}", dirs.len(), ntables_with_files, dirs.iter().map(|d| crate::qcheck::trunc(d, 40)).collect::<Vec<_>>()), case.clone()));
    } else {
        out.count("directory_injectivity_checks", 1);
    }
    out.eval(1);
    let outside: Vec<String> = list_files(&sandbox).into_iter().filter(|f| !f.starts_with("db/")).collect();
    let escaped_up = sandbox.parent().map(|p| ["escape", "escape2", "abs"].iter().any(|n| p.join(n).exists() || p.parent().map(|pp| pp.join(n).exists()).unwrap_or(false))).unwrap_or(false);
    if !outside.is_empty() || escaped_up || std::path::Path::new("/abs").exists() {
        out.fail(Failure::new("routing", "file_outside_database_directory", "escape", format!("files outside the database directory: {:?} (escaped_up={})", outside, escaped_up), case.clone()));
    }
    for f in &files {
        if f.split('/').any(|c| c == ".." || c == ".") {
            out.fail(Failure::new("routing", "path_component_dot", "escape", format!("suspicious path {}", f), case.clone()));
        }
    }
    db.close(true);
    let _ = std::fs::remove_dir_all(&sandbox);
    if id.ends_with('3') {
        out.sample(json!({"tables": tnames.iter().map(|t| crate::qcheck::trunc(t, 30)).collect::<Vec<_>>(), "subpartition_bytes": subpart, "files": files.iter().take(6).map(|f| crate::qcheck::trunc(f, 80)).collect::<Vec<_>>()}));
    }
}

fn name_class(c: &str) -> &'static str {
    if c.len() > 64 {
        "long"
    } else if !c.is_ascii() {
        "non_ascii"
    } else if c.chars().any(|x| x.is_uppercase()) {
        "upper"
    } else if c.chars().all(|x| x.is_ascii_lowercase() || x.is_ascii_digit() || x == '_') {
        "fs_safe"
    } else {
        "other_ascii"
    }
}

/// Direct lane over the hook wrappers: name sanitising and column -> file routing.
fn run_direct(seed: u64, n: usize, out: &mut CaseOut) {
    let mut rng = Rng::derive(seed, "c15direct", 0);
    let mut seen: BTreeMap<String, String> = BTreeMap::new();
    let mut names = table_names();
    for _ in 0..n {
        names.push(random_name(&mut rng));
        let base = rng.pick(&names).clone();
        names.push(format!("{}{}", base, rng.pick(&["", " ", ".", "/", "A", "é"])));
    }
    for name in &names {
        let s = locustdb::verif::sanitize_table_name(name);
        out.eval(1);
        if s.contains('/') || s.contains('\\') || s.starts_with('.') || s.is_empty() && !name.is_empty() || s.len() > 255 || s == ".." {
            out.fail(Failure::new("routing", "unsafe_directory_name", "sanitize", format!("sanitize_table_name({:?}) = {:?}", crate::qcheck::trunc(name, 60), crate::qcheck::trunc(&s, 80)), json!({"name": name})));
        }
        if let Some(prev) = seen.get(&s) {
            if prev != name {
                out.fail(Failure::new("routing", "two_names_one_directory", "sanitize", format!("{:?} and {:?} both map to {:?}", crate::qcheck::trunc(prev, 40), crate::qcheck::trunc(name, 40), crate::qcheck::trunc(&s, 60)), json!({"a": prev, "b": name})));
            }
        } else {
            seen.insert(s, name.clone());
        }
    }
    out.count("distinct_names_sanitised", seen.len() as u64);
    // routing: every stored column must route to the sub-partition that contains it
    for round in 0..n / 4 {
        let mut cols: Vec<String> = name_pool();
        for _ in 0..rng.below(10) {
            cols.push(random_name(&mut rng));
        }
        cols.sort();
        cols.dedup();
        rng.shuffle(&mut cols);
        cols.truncate(2 + rng.below(12));
        let built: Vec<Arc<locustdb::verif::Column>> = cols.iter().enumerate().map(|(i, c)| build_column(c, &(0..5).map(|r| cell(i, r)).collect::<Vec<_>>())).collect();
        let limit = *rng.pick(&[1u64, 60, 200, 4096, 8 << 20]);
        let opts = DbCfg { max_partition_size_bytes: limit, ..DbCfg::default() }.options(None);
        let (metadata, subparts) = locustdb::verif::subpartition(&opts, built);
        let mut by_last = BTreeMap::new();
        for (i, m) in metadata.iter().enumerate() {
            by_last.insert(m.last_column.clone(), i);
        }
        let md = PartitionMetadata { id: 1, tablename: "t".into(), offset: 0, len: 5, subpartitions: metadata.iter().map(|m| SubpartitionMetadata { size_bytes: m.size_bytes, subpartition_key: m.subpartition_key.clone(), last_column: m.last_column.clone(), loaded: m.loaded.clone() }).collect(), subpartitions_by_last_column: by_last };
        let keys: BTreeSet<&String> = metadata.iter().map(|m| &m.subpartition_key).collect();
        out.eval(1);
        if keys.len() != metadata.len() {
            out.fail(Failure::new("routing", "two_subpartitions_one_file", "subpartition", format!("sub-partition keys not distinct: {:?}", metadata.iter().map(|m| crate::qcheck::trunc(&m.subpartition_key, 30)).collect::<Vec<_>>()), json!({"columns": cols, "limit": limit})));
        }
        for (i, group) in subparts.iter().enumerate() {
            for col in group {
                out.eval(1);
                let routed = md.subpartition_key(col.name());
                if routed.as_ref() != Some(&metadata[i].subpartition_key) {
                    out.fail(Failure::new("routing", "column_routed_to_wrong_file", "subpartition", format!("column {:?} is stored in sub-partition {:?} but routes to {:?} (limit {}, {} files)", col.name(), metadata[i].subpartition_key, routed, limit, metadata.len()), json!({"columns": cols, "limit": limit})));
                }
            }
        }
        for m in &metadata {
            if m.subpartition_key.contains('/') || m.subpartition_key.len() > 200 {
                out.fail(Failure::new("routing", "unsafe_file_key", "subpartition", format!("{:?}", m.subpartition_key), json!({"columns": cols})));
            }
        }
        out.distinct(format!("routing|files={}|cols={}|limit={}", metadata.len().min(8), cols.len(), limit));
        let _ = round;
    }
}

pub fn run(ctx: &mut Ctx) {
    let n = ctx.pick(32u64, 2000);
    for i in 0..n {
        if i >= 32 && ctx.out_of_time() {
            break;
        }
        let id = format!("names-{}", i);
        if !ctx.take(&id) {
            continue;
        }
        let subpart = [1u64, 120, 4096, 8 << 20][(i % 4) as usize];
        let seed = ctx.seed;
        let idc = id.clone();
        ctx.run(&id, "name-routing", json!({"subpartition_bytes": subpart}), move |out, op| run_case(idc, seed, subpart, out, op));
    }
    for i in 0..ctx.pick(16u64, 200) {
        let id = format!("direct-{}", i);
        if !ctx.take(&id) {
            continue;
        }
        let seed = ctx.seed.wrapping_add(i);
        let n = ctx.pick(400usize, 2000);
        ctx.run(&id, "name-routing-direct", json!({"direct": i}), move |out, _op| run_direct(seed, n, out));
    }
}
