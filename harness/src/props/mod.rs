pub mod adhoc;
pub mod c01;
pub mod c02;
pub mod c03;
pub mod c04;
pub mod c05;
pub mod c06;
pub mod c07;
pub mod c08;
pub mod c09;
pub mod c10;
pub mod c11;
pub mod c12;
pub mod c13;
pub mod c14;
pub mod c15;
pub mod c16;
pub mod c17;
pub mod c18;
pub mod sanlane;

use crate::ctx::Ctx;

pub fn run(ctx: &mut Ctx) -> bool {
    match ctx.prop.as_str() {
        "C01" => c01::run(ctx),
        "C02" => c02::run(ctx),
        "C03" => c03::run(ctx),
        "C04" => c04::run(ctx),
        "C05" => c05::run(ctx),
        "C06" => c06::run(ctx),
        "C07" => c07::run(ctx),
        "C08" => c08::run(ctx),
        "C09" => c09::run(ctx),
        "C10" => c10::run(ctx),
        "C11" => c11::run(ctx),
        "C12" => c12::run(ctx),
        "C13" => c13::run(ctx),
        "C14" => c14::run(ctx),
        "C15" => c15::run(ctx),
        "C16" => c16::run(ctx),
        "C17" => c17::run(ctx),
        "C18" => c18::run(ctx),
        _ => return sanlane::run(ctx),
    }
    true
}

pub fn child_main(cmd: &str, args: &[String]) -> i32 {
    if cmd == "child-open" {
        return c09::child_open(args);
    }
    if cmd == "child-sql" {
        return adhoc::main(args);
    }
    64
}
