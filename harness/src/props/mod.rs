pub mod c01;

use crate::ctx::Ctx;

pub fn run(ctx: &mut Ctx) -> bool {
    match ctx.prop.as_str() {
        "C01" => c01::run(ctx),
        _ => return false,
    }
    true
}

pub fn child_main(_cmd: &str, _args: &[String]) -> i32 {
    64
}
