//! C09 — recovery after a crash at any point is possible and atomic.
//!
//! Crash model: the file system applies effects in program order; a crash keeps a prefix of the effect
//! sequence; a temp file whose write was not yet followed by sync may survive with any prefix of its content.
//! Hook H2 reports every primitive effect of FileBlobWriter; at each boundary the directory tree is copied:
//! one crash image per boundary. Every image is then opened by a child process (the real recovery code).
use std::collections::BTreeMap;
use std::io::Read;
use std::path::{Path, PathBuf};
use std::process::{Command, Stdio};
use std::sync::atomic::{AtomicBool, AtomicUsize, Ordering};
use std::sync::{Arc, Mutex};
use std::time::{Duration, Instant};

use serde_json::{json, Value as J};

use crate::ctx::Ctx;
use crate::drive::{copy_dir, fresh_dir, list_files, Db, DbCfg, Via};
use crate::guard::OpCell;
use crate::hist::{compare_table, history_string, Op, World};
use crate::model::{LTable, V};
use crate::props::c08::mk_batch;
use crate::report::{CaseOut, Failure};
use crate::rng::Rng;

#[derive(Clone, Debug)]
struct ImageMeta {
    seq: usize,
    kind: String,
    rel: String,
    after: bool,
    acked: usize,
    inflight: bool,
    op_index: usize,
}

struct Capture {
    root: String,
    images: PathBuf,
    metas: Vec<ImageMeta>,
    acked: usize,
    inflight: bool,
    op_index: usize,
    enabled: bool,
}

static CAPTURE: Mutex<Option<Capture>> = Mutex::new(None);
static HOOKED: AtomicBool = AtomicBool::new(false);
/// child mode: exit abruptly at the k-th completed effect (crash during recovery)
static DIE_AT: AtomicUsize = AtomicUsize::new(usize::MAX);
static EFFECTS_SEEN: AtomicUsize = AtomicUsize::new(0);

fn install_hook() {
    if HOOKED.swap(true, Ordering::SeqCst) {
        return;
    }
    locustdb::verif::set_fs_hook(Some(Arc::new(|kind, path, after| {
        if after {
            let n = EFFECTS_SEEN.fetch_add(1, Ordering::SeqCst);
            if n + 1 == DIE_AT.load(Ordering::SeqCst) {
                // simulate the process dying right after this effect
                unsafe { libc_exit() };
            }
        }
        let mut g = CAPTURE.lock().unwrap();
        if let Some(c) = g.as_mut() {
            let p = path.to_string_lossy().to_string();
            if !c.enabled || !p.starts_with(&c.root) {
                return;
            }
            // boundaries: before the first effect of a store/delete and after every effect
            if !after && kind != "mkdir" && kind != "remove" {
                return;
            }
            let seq = c.metas.len();
            let dst = c.images.join(format!("img_{:05}", seq));
            copy_dir(Path::new(&c.root), &dst);
            let rel = p[c.root.len()..].trim_start_matches('/').to_string();
            c.metas.push(ImageMeta { seq, kind: kind.to_string(), rel, after, acked: c.acked, inflight: c.inflight, op_index: c.op_index });
        }
    })));
}

unsafe fn libc_exit() -> ! {
    extern "C" {
        fn _exit(code: i32) -> !;
    }
    _exit(77)
}

fn file_role(rel: &str) -> &'static str {
    if rel.starts_with("wal") {
        "wal"
    } else if rel.starts_with("meta") {
        "meta"
    } else if rel.starts_with("tables") {
        "partition"
    } else {
        "dir"
    }
}

/// What a child observed when opening a directory.
#[derive(Debug, Clone)]
pub enum ChildResult {
    Opened { tables: BTreeMap<String, LTableDump>, stderr: String },
    Died { code: Option<i32>, stderr: String },
    Hung { progressed: bool, stderr: String },
}

pub type LTableDump = BTreeMap<String, Vec<V>>;

/// (utime+stime over all threads, number of threads that are runnable or in uninterruptible disk wait)
fn child_cpu_ticks(pid: u32) -> (u64, usize) {
    let mut total = 0;
    let mut busy = 0;
    if let Ok(rd) = std::fs::read_dir(format!("/proc/{}/task", pid)) {
        for e in rd.flatten() {
            if let Ok(s) = std::fs::read_to_string(e.path().join("stat")) {
                if let Some(pos) = s.rfind(')') {
                    let f: Vec<&str> = s[pos + 1..].split_whitespace().collect();
                    if f.len() > 12 {
                        total += f[11].parse::<u64>().unwrap_or(0) + f[12].parse::<u64>().unwrap_or(0);
                        if f[0] == "R" || f[0] == "D" {
                            busy += 1;
                        }
                    }
                }
            }
        }
    }
    (total, busy)
}

pub fn run_child(dir: &Path, cfg: &DbCfg, die_at: Option<usize>) -> ChildResult {
    crate::guard::EXTERNAL_WAITS.fetch_add(1, Ordering::SeqCst);
    let r = run_child_inner(dir, cfg, die_at);
    crate::guard::EXTERNAL_WAITS.fetch_sub(1, Ordering::SeqCst);
    crate::guard::heartbeat();
    r
}

fn run_child_inner(dir: &Path, cfg: &DbCfg, die_at: Option<usize>) -> ChildResult {
    let exe = std::env::current_exe().expect("current exe");
    let mut cmd = Command::new(exe);
    cmd.arg("child-open").arg(dir).arg(format!("{}", cfg.io_threads)).arg(format!("{}", cfg.partition_combine_factor));
    if let Some(k) = die_at {
        cmd.arg(format!("{}", k));
    }
    let mut child = cmd.stdout(Stdio::piped()).stderr(Stdio::piped()).spawn().expect("spawn child");
    let pid = child.id();
    let start = Instant::now();
    let mut last = child_cpu_ticks(pid).0;
    let mut idle = 0;
    loop {
        match child.try_wait() {
            Ok(Some(status)) => {
                let mut out = String::new();
                let mut err = String::new();
                let _ = child.stdout.take().unwrap().read_to_string(&mut out);
                let _ = child.stderr.take().unwrap().read_to_string(&mut err);
                if status.success() {
                    if let Some(line) = out.lines().rev().find(|l| l.starts_with("{\"dump\"")) {
                        if let Ok(j) = serde_json::from_str::<J>(line) {
                            let mut tables = BTreeMap::new();
                            if let Some(ts) = j["dump"].as_object() {
                                for (t, cols) in ts {
                                    let mut m = BTreeMap::new();
                                    if let Some(cs) = cols.as_object() {
                                        for (c, vals) in cs {
                                            m.insert(c.clone(), vals.as_array().map(|a| a.iter().map(V::from_json).collect()).unwrap_or_default());
                                        }
                                    }
                                    tables.insert(t.clone(), m);
                                }
                            }
                            return ChildResult::Opened { tables, stderr: err };
                        }
                    }
                    return ChildResult::Died { code: Some(0), stderr: format!("no dump line; stdout={} stderr={}", out.chars().take(300).collect::<String>(), err) };
                }
                return ChildResult::Died { code: status.code(), stderr: err };
            }
            Ok(None) => {}
            Err(_) => {}
        }
        std::thread::sleep(Duration::from_millis(if start.elapsed() < Duration::from_secs(2) { 4 } else { 200 }));
        if start.elapsed() > Duration::from_secs(2) {
            // a child whose threads all sleep (futex) and burn no CPU is stuck; one that is runnable but starved, or in
            // disk wait on a loaded machine, is not
            let (t, busy) = child_cpu_ticks(pid);
            if t.saturating_sub(last) == 0 && busy == 0 {
                idle += 1;
            } else {
                idle = 0;
            }
            last = t;
            let hung = idle >= 20; // 4 s with every thread asleep and not a single clock tick of CPU
            if hung || start.elapsed() > Duration::from_secs(90) {
                let _ = child.kill();
                let _ = child.wait();
                let mut err = String::new();
                let _ = child.stderr.take().unwrap().read_to_string(&mut err);
                return ChildResult::Hung { progressed: !hung, stderr: err };
            }
        }
    }
}

/// Child side: open the directory with the real recovery code, dump every user table as JSON.
pub fn child_open(args: &[String]) -> i32 {
    let dir = PathBuf::from(&args[0]);
    let io_threads: usize = args.get(1).and_then(|s| s.parse().ok()).unwrap_or(1);
    let factor: u64 = args.get(2).and_then(|s| s.parse().ok()).unwrap_or(4);
    if let Some(k) = args.get(3).and_then(|s| s.parse::<usize>().ok()) {
        DIE_AT.store(k, Ordering::SeqCst);
        install_hook();
    }
    crate::guard::install_panic_hook(true);
    // the parent kills a child that hangs; if the parent itself is gone (shard killed or finished) nobody would
    std::thread::spawn(|| {
        std::thread::sleep(Duration::from_secs(150));
        std::process::exit(97);
    });
    let cfg = DbCfg { disk: true, io_threads, partition_combine_factor: factor, ..DbCfg::default() };
    let op = OpCell::default();
    let db = Db::open_at(&cfg, Some(dir), false, &op);
    let mut dump = serde_json::Map::new();
    let names: Vec<String> = match db.query_opts("SELECT name FROM _meta_tables", false, false) {
        Ok(q) => q.col("name").map(|c| c.iter().filter_map(|v| if let V::Str(s) = v { Some(s.clone()) } else { None }).collect()).unwrap_or_default(),
        Err(e) => {
            eprintln!("child: _meta_tables query failed: {} {}", e.kind, e.msg);
            vec![]
        }
    };
    let mut seen = std::collections::BTreeSet::new();
    for t in names {
        if t.starts_with("_meta") || !seen.insert(t.clone()) {
            if !t.starts_with("_meta") {
                eprintln!("child: table {} listed twice in _meta_tables", t);
                dump.insert(format!("__dup__{}", t), json!({}));
            }
            continue;
        }
        match db.query_opts(&format!("SELECT * FROM \"{}\"", t), false, false) {
            Ok(q) => {
                let mut cols = serde_json::Map::new();
                for (c, vals) in &q.cols {
                    cols.insert(c.clone(), J::Array(vals.iter().map(|v| v.to_json()).collect()));
                }
                dump.insert(t, J::Object(cols));
            }
            Err(e) => {
                eprintln!("child: SELECT * FROM {} failed: {} {}", t, e.kind, e.msg);
                dump.insert(t, json!({"__error__": [{"s": format!("{}: {}", e.kind, e.msg)}]}));
            }
        }
    }
    println!("{}", json!({ "dump": dump }));
    0
}

fn dump_matches(dump: &BTreeMap<String, LTableDump>, model: &BTreeMap<String, LTable>) -> Option<String> {
    for (t, lt) in model {
        let empty = LTableDump::new();
        let got = dump.get(t).unwrap_or(&empty);
        if got.contains_key("__error__") {
            return Some(format!("table {}: query failed after recovery: {:?}", t, got["__error__"]));
        }
        let q = crate::drive::QOut {
            colnames: got.keys().cloned().collect(),
            rows: vec![],
            cols: got.iter().map(|(k, v)| (k.clone(), v.clone())).collect(),
            col_kinds: vec![],
            plans: vec![],
            files_opened: 0,
            disk_read_bytes: 0,
            rows_scanned: 0,
            has_rows: false,
        };
        if lt.len == 0 && got.is_empty() {
            continue;
        }
        if let Some(m) = compare_table(lt, &Ok(q)) {
            return Some(format!("table {}: {}: {}", t, m.mode, m.detail));
        }
    }
    for t in dump.keys() {
        if t.starts_with("__dup__") {
            return Some(format!("table {} listed twice in the catalogue", &t[7..]));
        }
        if !model.contains_key(t) && !dump[t].is_empty() && dump[t].values().next().map(|v| !v.is_empty()).unwrap_or(false) {
            return Some(format!("table {} exists after recovery but no acknowledged or in-flight request created it", t));
        }
    }
    None
}

fn model_upto(ops: &[Op], n_ingests: usize) -> BTreeMap<String, LTable> {
    let mut m: BTreeMap<String, LTable> = BTreeMap::new();
    let mut k = 0;
    for o in ops {
        if let Op::Ingest(bs) = o {
            if k >= n_ingests {
                break;
            }
            k += 1;
            for b in bs {
                m.entry(b.table.clone()).or_insert_with(|| LTable::new(&b.table)).append(b);
            }
        }
    }
    m
}

fn run_history(id: String, seed: u64, cfg: DbCfg, letters: Vec<u8>, max_images: usize, out: &mut CaseOut, op: &OpCell) {
    install_hook();
    let mut rng = Rng::derive(seed, &id, 0);
    let images = fresh_dir("c09img");
    let mut w = World::open(&cfg, Via::Wire, op);
    let root = w.db.path.clone().unwrap().to_string_lossy().to_string();
    *CAPTURE.lock().unwrap() = Some(Capture { root: root.clone(), images: images.clone(), metas: vec![], acked: 0, inflight: false, op_index: 0, enabled: true });
    let mut ops: Vec<Op> = Vec::new();
    let mut req = 0u64;
    for (i, l) in letters.iter().enumerate() {
        let o = match l {
            b'A' | b'B' | b'C' => {
                req += 1;
                let rows = 2 + rng.below(4);
                match l {
                    b'A' => Op::Ingest(vec![mk_batch("ta", req, rows, &mut rng)]),
                    b'B' => Op::Ingest(vec![mk_batch("tb", req, rows, &mut rng)]),
                    _ => Op::Ingest(vec![mk_batch("ta", req, rows, &mut rng), mk_batch("tb", req, rows + 1, &mut rng)]),
                }
            }
            b'F' => Op::Flush,
            _ => Op::Restart { quiescent: true },
        };
        let is_ingest = matches!(o, Op::Ingest(_));
        {
            let mut g = CAPTURE.lock().unwrap();
            let c = g.as_mut().unwrap();
            c.op_index = i;
            c.inflight = is_ingest;
        }
        ops.push(o.clone());
        w.apply(&o);
        {
            let mut g = CAPTURE.lock().unwrap();
            let c = g.as_mut().unwrap();
            if is_ingest {
                c.acked += 1;
            }
            c.inflight = false;
        }
    }
    // quiesce, then stop capturing
    let mut w = w;
    w.db.close(true);
    let metas = {
        let mut g = CAPTURE.lock().unwrap();
        let c = g.take().unwrap();
        c.metas
    };
    let hist = history_string(&ops);
    let case = json!({"history": hist, "cfg": cfg.to_json(), "letters": String::from_utf8_lossy(&letters)});
    out.count("crash_images_captured", metas.len() as u64);

    // derived images: truncated temp file after a `write` effect
    struct Img {
        dir: PathBuf,
        meta: ImageMeta,
        variant: String,
    }
    let mut imgs: Vec<Img> = Vec::new();
    for m in &metas {
        let dir = images.join(format!("img_{:05}", m.seq));
        imgs.push(Img { dir: dir.clone(), meta: m.clone(), variant: "exact".into() });
        if m.kind == "write" && m.after {
            let f = dir.join(&m.rel);
            if let Ok(len) = std::fs::metadata(&f).map(|x| x.len()) {
                for (name, keep) in [("trunc0", 0u64), ("trunc1", 1), ("trunc48", 48), ("trunc_half", len / 2), ("trunc_len-1", len.saturating_sub(1))] {
                    if keep < len {
                        let d2 = images.join(format!("img_{:05}_{}", m.seq, name));
                        copy_dir(&dir, &d2);
                        let _ = std::fs::OpenOptions::new().write(true).open(d2.join(&m.rel)).and_then(|fh| fh.set_len(keep));
                        imgs.push(Img { dir: d2, meta: m.clone(), variant: name.into() });
                    }
                }
            }
        }
    }
    // evaluate (all of them, or an evenly spread subset when a history produced very many)
    let stride = (imgs.len() / max_images.max(1)).max(1);
    let mut evaluated = 0;
    let mut sample_done = false;
    for (k, img) in imgs.iter().enumerate() {
        if k % stride != 0 && img.variant == "exact" && imgs.len() > max_images {
            continue;
        }
        evaluated += 1;
        let work = images.join(format!("work_{}", k));
        copy_dir(&img.dir, &work);
        let m = &img.meta;
        let phase = format!("{}:{}:{}{}", m.kind, file_role(&m.rel), if m.after { "after" } else { "before" }, if img.variant == "exact" { String::new() } else { format!(":{}", img.variant) });
        let flush_step = match ops.get(m.op_index) {
            Some(Op::Flush) => "during_flush",
            Some(Op::Ingest(_)) => "during_ingest",
            Some(Op::Restart { .. }) => "during_recovery",
            _ => "other",
        };
        let res = run_child(&work, &cfg, None);
        out.eval(1);
        let model_acked = model_upto(&ops, m.acked);
        let model_plus = model_upto(&ops, m.acked + if m.inflight { 1 } else { 0 });
        let describe = |what: &str| format!("history '{}', crash image #{} ({} {} during op #{} '{}', {} acked, in-flight={}): {}", hist, m.seq, phase, m.rel, m.op_index, ops.get(m.op_index).map(|o| o.letter()).unwrap_or_default(), m.acked, m.inflight, what);
        let mut image_case = case.clone();
        image_case["image"] = json!({"seq": m.seq, "phase": phase, "file": m.rel, "acked": m.acked, "inflight": m.inflight, "files": list_files(&img.dir)});
        match &res {
            ChildResult::Opened { tables, .. } => {
                let a = dump_matches(tables, &model_acked);
                let b = if m.inflight { dump_matches(tables, &model_plus) } else { a.clone() };
                if a.is_some() && b.is_some() {
                    out.fail(Failure::new("crash", "content", &format!("{}|{}", flush_step, file_role(&m.rel)), describe(&format!("content is neither acknowledged nor acknowledged+in-flight: {}", a.unwrap())), image_case.clone()));
                } else {
                    out.distinct(format!("{}|{}", phase, flush_step));
                    if !sample_done && m.kind == "rename" {
                        sample_done = true;
                        out.sample(json!({"history": hist, "image": image_case["image"].clone(), "recovered_rows": tables.iter().map(|(t, c)| (t.clone(), c.values().next().map(|v| v.len()).unwrap_or(0))).collect::<Vec<_>>()}));
                    }
                    // idempotence: crash again right after recovery (plain reopen), and - for a sample - in the middle of it
                    let res2 = run_child(&work, &cfg, None);
                    out.eval(1);
                    match &res2 {
                        ChildResult::Opened { tables: t2, .. } => {
                            if t2 != tables {
                                out.fail(Failure::new("crash", "not_idempotent", &format!("{}|{}", flush_step, file_role(&m.rel)), describe("reopening the recovered directory a second time gives different content"), image_case.clone()));
                            }
                        }
                        other => out.fail(Failure::new("crash", "reopen_after_recovery_fails", &format!("{}|{}", flush_step, file_role(&m.rel)), describe(&format!("second open failed: {:?}", short(other))), image_case.clone())),
                    }
                    if k % 7 == 0 {
                        for die_at in [1usize, 2] {
                            let work2 = images.join(format!("work_{}_d{}", k, die_at));
                            copy_dir(&img.dir, &work2);
                            let r = run_child(&work2, &cfg, Some(die_at));
                            if let ChildResult::Died { code: Some(77), .. } = r {
                                out.count("crashes_during_recovery", 1);
                                let r3 = run_child(&work2, &cfg, None);
                                out.eval(1);
                                match &r3 {
                                    ChildResult::Opened { tables: t3, .. } => {
                                        if t3 != tables {
                                            out.fail(Failure::new("crash", "recovery_not_crash_safe", &format!("{}|{}", flush_step, file_role(&m.rel)), describe(&format!("content differs after a crash at effect {} of the recovery", die_at)), image_case.clone()));
                                        }
                                    }
                                    other => out.fail(Failure::new("crash", "open_after_crashed_recovery_fails", &format!("{}|{}", flush_step, file_role(&m.rel)), describe(&format!("{:?}", short(other))), image_case.clone())),
                                }
                            }
                            let _ = std::fs::remove_dir_all(&work2);
                        }
                    }
                }
            }
            ChildResult::Died { code, stderr } => {
                out.fail(Failure::new("crash", "open_fails", &format!("{}|{}|{}", phase, flush_step, panic_site(stderr)), describe(&format!("LocustDB::new did not survive (exit {:?}): {}", code, tail(stderr))), image_case.clone()));
            }
            ChildResult::Hung { progressed, stderr } => {
                if *progressed {
                    out.inconclusive.push(format!("child open exceeded 90 s with CPU still advancing: {}", describe("")));
                } else {
                    out.fail(Failure::new("crash", "open_never_terminates", &format!("{}|{}|{}", phase, flush_step, panic_site(stderr)), describe(&format!("LocustDB::new made no progress for 4 s (all threads asleep): {}", tail(stderr))), image_case.clone()));
                }
            }
        }
        let _ = std::fs::remove_dir_all(&work);
    }
    out.count("crash_images_evaluated", evaluated);
    let _ = std::fs::remove_dir_all(&images);
}

fn short(r: &ChildResult) -> String {
    match r {
        ChildResult::Opened { .. } => "opened".into(),
        ChildResult::Died { code, stderr } => format!("died exit={:?} {}", code, tail(stderr)),
        ChildResult::Hung { progressed, stderr } => format!("hung progressed={} {}", progressed, tail(stderr)),
    }
}

fn tail(s: &str) -> String {
    let lines: Vec<&str> = s.lines().filter(|l| l.contains("[panic]") || l.contains("child:")).collect();
    let t = lines.iter().take(3).cloned().collect::<Vec<_>>().join(" / ");
    t.chars().take(400).collect()
}

fn panic_site(stderr: &str) -> String {
    for l in stderr.lines() {
        // the child's panic hook prints "[site=file#function]" (stable under line shifts)
        let at_repo = format!(" at {}", crate::guard::repo_root());
        if let (Some(a), true) = (l.find("[site="), l.contains(&at_repo)) {
            let rest = &l[a + 6..];
            let end = rest.rfind(']').unwrap_or(rest.len());
            return rest[..end].to_string();
        }
        if let Some(pos) = l.find(&at_repo) {
            let rest = &l[pos + at_repo.len()..];
            let end = rest.find(": ").unwrap_or(rest.len());
            return rest[..end].to_string();
        }
    }
    "no-panic".into()
}

pub fn run(ctx: &mut Ctx) {
    let n = ctx.pick(32u64, 4000);
    let max_images = ctx.pick(60usize, 100000);
    for i in 0..n {
        if i >= 32 && ctx.out_of_time() {
            break;
        }
        let id = format!("crash-{}", i);
        if !ctx.take(&id) {
            continue;
        }
        let mut rng = Rng::derive(ctx.seed, &id, 2);
        let len = 3 + rng.below(ctx.pick(5, 8));
        let mut letters: Vec<u8> = (0..len).map(|_| *rng.pick(&[b'A', b'B', b'C', b'C', b'F', b'F', b'R'])).collect();
        letters[0] = *rng.pick(&[b'A', b'C']);
        if !letters.contains(&b'F') {
            letters.push(b'F');
        }
        let cfg = DbCfg {
            disk: true,
            io_threads: [1usize, 4][(i % 2) as usize],
            partition_combine_factor: [1u64, 999, 0, 4][(i % 4) as usize],
            wal_flush_compaction_threads: 1,
            ..DbCfg::default()
        };
        let seed = ctx.seed;
        let idc = id.clone();
        ctx.run(&id, "crash-recovery", json!({"letters": String::from_utf8_lossy(&letters), "cfg": cfg.to_json()}), move |out, op| {
            run_history(idc, seed, cfg, letters, max_images, out, op)
        });
    }
}
