//! C03 — WHERE keeps exactly the rows for which the predicate is true.
use std::collections::BTreeMap;

use serde_json::json;

use crate::ctx::Ctx;
use crate::drive::{Db, DbCfg};
use crate::guard::OpCell;
use crate::model::{LTable, LType, V};
use crate::qcheck::{self, Probe, Verdict};
use crate::report::CaseOut;
use crate::rng::Rng;
use crate::sql::{bin, col, Op, E, Q};
use crate::tables::{self, canonical_table, make_table, random_splits, realise, standard_columns, GenTable, Realisation};

pub const CMP_OPS: [Op; 6] = [Op::Eq, Op::Ne, Op::Lt, Op::Le, Op::Gt, Op::Ge];

pub struct ColStats {
    pub ty: LType,
    pub nullable: bool,
    pub ints: Vec<i64>,
    pub floats: Vec<f64>,
    pub strs: Vec<String>,
}

pub fn col_stats(t: &LTable) -> BTreeMap<String, ColStats> {
    let mut m = BTreeMap::new();
    for (name, vals) in &t.cols {
        let mut st = ColStats { ty: t.col_type(name), nullable: vals.iter().any(|v| v.is_null()), ints: vec![], floats: vec![], strs: vec![] };
        for v in vals {
            match v {
                V::Int(i) => st.ints.push(*i),
                V::Float(f) => st.floats.push(*f),
                V::Str(s) => st.strs.push(s.clone()),
                V::Null => {}
            }
        }
        st.ints.sort();
        st.ints.dedup();
        st.floats.sort_by(|a, b| a.total_cmp(b));
        st.strs.sort();
        st.strs.dedup();
        m.insert(name.clone(), st);
    }
    m
}

fn clamp_const(i: i128) -> i64 {
    i.clamp(i64::MIN as i128 + 1, i64::MAX as i128 - 1) as i64
}

/// (constant, position class)
pub fn int_consts(st: &ColStats, rng: &mut Rng) -> Vec<(i64, &'static str)> {
    let mut v = Vec::new();
    if st.ints.is_empty() {
        return vec![(0, "no_values"), (7, "no_values")];
    }
    let min = st.ints[0] as i128;
    let max = *st.ints.last().unwrap() as i128;
    v.push((clamp_const(min - 1), "below_min"));
    v.push((clamp_const(min), "min"));
    v.push((*rng.pick(&st.ints), "present"));
    // a gap value strictly inside the range that is not present
    for _ in 0..8 {
        let g = clamp_const(min + (rng.next_u64() as i128 % (max - min + 1).max(1)));
        if st.ints.binary_search(&g).is_err() {
            v.push((g, "gap"));
            break;
        }
    }
    v.push((clamp_const(max), "max"));
    v.push((clamp_const(max + 1), "above_max"));
    for (c, cls) in [(-1i64, "outside_narrow"), (256, "outside_narrow"), (65536, "outside_narrow"), (1 << 32, "outside_narrow"), (i64::MIN + 1, "far"), (i64::MAX - 1, "far")] {
        v.push((c, cls));
    }
    v
}

pub fn float_consts(st: &ColStats, rng: &mut Rng) -> Vec<(f64, &'static str)> {
    let mut v = vec![(0.5, "half"), (-1.5, "half")];
    if let (Some(lo), Some(hi)) = (st.floats.first(), st.floats.last()) {
        v.push((*lo - 1.0, "below_min"));
        v.push((*lo, "min"));
        v.push((*rng.pick(&st.floats), "present"));
        v.push((*hi, "max"));
        v.push((*hi + 1.0, "above_max"));
    }
    if let (Some(lo), Some(hi)) = (st.ints.first(), st.ints.last()) {
        if lo.abs() < (1 << 50) && hi.abs() < (1 << 50) {
            v.push((*lo as f64 - 0.5, "below_min"));
            v.push((*rng.pick(&st.ints) as f64 + 0.5, "between_ints"));
            v.push((*rng.pick(&st.ints) as f64, "present"));
            v.push((*hi as f64 + 0.5, "above_max"));
        }
    }
    v.retain(|c| c.0.is_finite());
    v
}

pub fn str_consts(st: &ColStats, rng: &mut Rng) -> Vec<(String, &'static str)> {
    let mut v = vec![
        (String::new(), "empty"),
        (format!("zzzz{}", rng.below(100000)), "after_all"),
        (format!("  {}", rng.below(100000)), "before_all"),
    ];
    if !st.strs.is_empty() {
        let p = rng.pick(&st.strs).clone();
        v.push((p.clone(), "present"));
        if p.chars().count() > 1 {
            let prefix: String = p.chars().take(p.chars().count() / 2).collect();
            v.push((prefix, "prefix"));
        }
        v.push((format!("{}!", p), "between"));
    }
    v.retain(|c| !c.0.contains('\\'));
    v
}

fn like_patterns(st: &ColStats, rng: &mut Rng) -> Vec<String> {
    let mut v = vec!["%".to_string(), "_".to_string(), "__%".to_string()];
    if !st.strs.is_empty() {
        let p: Vec<char> = rng.pick(&st.strs).chars().collect();
        if !p.is_empty() {
            let k = 1 + rng.below(p.len());
            v.push(format!("{}%", p[..k].iter().collect::<String>()));
            v.push(format!("%{}", p[p.len() - k..].iter().collect::<String>()));
            let mid = rng.below(p.len());
            v.push(format!("%{}%", p[mid]));
            let mut q = p.clone();
            q[mid] = '_';
            v.push(q.iter().collect());
            v.push(p.iter().collect());
        }
    }
    // T-LIKE: no adjacent %
    v.retain(|p| !p.contains("%%") && !p.contains('\\'));
    v
}

fn regex_patterns(st: &ColStats, rng: &mut Rng) -> Vec<String> {
    let mut v = vec!["^.$".to_string(), "[0-9]+".to_string(), "^$".to_string(), "a|e".to_string()];
    if !st.strs.is_empty() {
        let p = rng.pick(&st.strs).clone();
        let esc = regex::escape(&p);
        v.push(format!("^{}$", esc));
        let pre: String = p.chars().take(2).collect();
        v.push(format!("^{}", regex::escape(&pre)));
    }
    v.retain(|p| !p.contains('\\') && !p.contains('\''));
    v
}

pub struct PredGen<'a> {
    pub stats: &'a BTreeMap<String, ColStats>,
    pub cols: Vec<String>,
}

impl<'a> PredGen<'a> {
    pub fn new(stats: &'a BTreeMap<String, ColStats>) -> PredGen<'a> {
        let cols = stats.keys().filter(|c| *c != "id").cloned().collect();
        PredGen { stats, cols }
    }

    fn cols_of(&self, ty: LType) -> Vec<&String> {
        self.cols.iter().filter(|c| self.stats[*c].ty == ty).collect()
    }

    /// one atomic predicate + a label (operator class, operand types, constant class)
    pub fn atom(&self, rng: &mut Rng) -> (E, String) {
        let c = rng.pick(&self.cols).clone();
        let st = &self.stats[&c];
        let op = *rng.pick(&CMP_OPS);
        let nl = if st.nullable { "nullable" } else { "dense" };
        match rng.below(10) {
            0 => {
                let e = if rng.chance(0.5) { E::IsNull(Box::new(col(&c))) } else { E::IsNotNull(Box::new(col(&c))) };
                (e, format!("isnull|{:?}|{}", st.ty, nl))
            }
            1 | 2 if st.ty != LType::Null => {
                // column vs column of a comparable type
                let other_ty = match st.ty {
                    LType::Int => *rng.pick(&[LType::Int, LType::Int, LType::Float]),
                    LType::Float => *rng.pick(&[LType::Float, LType::Int]),
                    t => t,
                };
                let others = self.cols_of(other_ty);
                let o = (*rng.pick(&others)).clone();
                (bin(op, col(&c), col(&o)), format!("{}|col:{:?}~col:{:?}|colcol|{}", op.sql(), st.ty, other_ty, nl))
            }
            3 if st.ty == LType::Str => {
                let pats = like_patterns(st, rng);
                let p = rng.pick(&pats).clone();
                let neg = rng.chance(0.3);
                (E::Like(Box::new(col(&c)), p, neg), format!("{}like|Str|pattern|{}", if neg { "not" } else { "" }, nl))
            }
            4 if st.ty == LType::Str => {
                let pats = regex_patterns(st, rng);
                let p = rng.pick(&pats).clone();
                (E::Regex(Box::new(col(&c)), p), format!("regex|Str|pattern|{}", nl))
            }
            _ => {
                let flip = rng.chance(0.3);
                let (k, cls, kty): (E, &str, &str) = match st.ty {
                    LType::Int | LType::Null => {
                        if rng.chance(0.25) {
                            let cs = float_consts(st, rng);
                            let (f, cls) = *rng.pick(&cs);
                            (E::Flt(f), cls, "flt")
                        } else {
                            let cs = int_consts(st, rng);
                            let (i, cls) = *rng.pick(&cs);
                            (E::Int(i), cls, "int")
                        }
                    }
                    LType::Float => {
                        if rng.chance(0.3) {
                            let i = rng.range(-200_000, 200_000);
                            (E::Int(i), "int_vs_float", "int")
                        } else {
                            let cs = float_consts(st, rng);
                            let (f, cls) = *rng.pick(&cs);
                            (E::Flt(f), cls, "flt")
                        }
                    }
                    LType::Str => {
                        let cs = str_consts(st, rng);
                        let (s, cls) = rng.pick(&cs).clone();
                        (E::Str(s), cls, "str")
                    }
                };
                let e = if flip { bin(op, k, col(&c)) } else { bin(op, col(&c), k) };
                (e, format!("{}|col:{:?}~{}|{}{}|{}", op.sql(), st.ty, kty, cls, if flip { "|const_left" } else { "" }, nl))
            }
        }
    }

    pub fn tree(&self, depth: usize, rng: &mut Rng) -> (E, String) {
        if depth == 0 || rng.chance(0.35) {
            return self.atom(rng);
        }
        match rng.below(5) {
            0 => {
                let (a, l) = self.tree(depth - 1, rng);
                (E::Not(Box::new(a)), format!("not({})", l))
            }
            1 | 2 => {
                let (a, la) = self.tree(depth - 1, rng);
                let (b, lb) = self.tree(depth - 1, rng);
                (bin(Op::And, a, b), format!("and({};{})", la, lb))
            }
            _ => {
                let (a, la) = self.tree(depth - 1, rng);
                let (b, lb) = self.tree(depth - 1, rng);
                (bin(Op::Or, a, b), format!("or({};{})", la, lb))
            }
        }
    }
}

fn refs_nullable(e: &E, ann: &std::collections::HashMap<String, &'static str>, absent_only: bool) -> bool {
    let mut cols = Vec::new();
    e.cols(&mut cols);
    cols.iter().any(|c| {
        let a = ann.get(c).copied().unwrap_or("null");
        if absent_only {
            a.ends_with('~') || a == "null"
        } else {
            a.ends_with('?') || a.ends_with('~') || a == "null"
        }
    })
}

pub fn like_class(p: &str) -> String {
    let mut out = String::new();
    for c in p.chars() {
        let k = if c == '%' || c == '_' { c } else { 'a' };
        if k == 'a' && out.ends_with('a') {
            continue;
        }
        out.push(k);
    }
    out
}

/// Root-cause diagnosis of a minimal failing filter statement (known engine defects; see DESIGN.md).
thread_local! {
    /// Row ranges that were ingested between two flushes of the realisation under test: each becomes (at least part of)
    /// one partition with its own string dictionary. Empty = treat the table as one range.
    static LAYOUT_RANGES: std::cell::RefCell<Vec<(usize, usize)>> = const { std::cell::RefCell::new(Vec::new()) };
}

/// Remember how the table under test was cut into flush groups (used by the dictionary diagnosis below).
pub fn set_layout(real: &Realisation) {
    let mut ranges = Vec::new();
    let mut start = 0;
    let mut group_start = 0;
    for (i, rows) in real.splits.iter().enumerate() {
        start += rows;
        if real.flush_after.get(i).copied().unwrap_or(false) && start > group_start {
            ranges.push((group_start, start));
            group_start = start;
        }
    }
    if start > group_start {
        ranges.push((group_start, start));
    }
    LAYOUT_RANGES.with(|r| *r.borrow_mut() = ranges);
}

pub fn diagnose(mq: &Q, mode: &str, got: &Result<crate::drive::QOut, crate::drive::QErr>, table: &LTable) -> Option<String> {
    let ann = qcheck::annotate(table);
    let f = mq.filter.as_ref()?;
    fn has_dropped_operand(e: &E, ann: &std::collections::HashMap<String, &'static str>) -> bool {
        match e {
            E::Bin(Op::And, a, b) | E::Bin(Op::Or, a, b) => {
                refs_nullable(a, ann, true) || refs_nullable(b, ann, true) || has_dropped_operand(a, ann) || has_dropped_operand(b, ann)
            }
            E::Not(a) => has_dropped_operand(a, ann),
            _ => false,
        }
    }
    match f {
        E::Bin(Op::Or, a, b) if mode == "missing" && (refs_nullable(a, &ann, false) || refs_nullable(b, &ann, false)) => {
            // does the engine's answer coincide with non-Kleene logic (NULL as soon as one operand is NULL)?
            let mut ctx = crate::sql::EvalCtx::new(table);
            ctx.strict_null_logic = true;
            let rows = crate::sql::ref_filter(table, Some(f), &ctx).ok()?;
            let g = got.as_ref().ok()?;
            if g.rows_from_cols().len() == rows.len() {
                return Some("or_with_null_operand_is_null".into());
            }
            // with a column that is absent from whole partitions the engine mixes both behaviours
            if refs_nullable(a, &ann, true) || refs_nullable(b, &ann, true) {
                return Some("or_with_null_operand_is_null+absent_column".into());
            }
            None
        }
        E::Bin(Op::And, _, _) | E::Bin(Op::Or, _, _) | E::Not(_) if mode == "extra" && has_dropped_operand(f, &ann) => {
            Some("boolean_operand_on_column_absent_in_partition_is_dropped".into())
        }
        E::Bin(op, a, b) if matches!(op, Op::Lt | Op::Le | Op::Gt | Op::Ge) => {
            let (c, k) = match (&**a, &**b) {
                (E::Col(c), E::Str(k)) | (E::Str(k), E::Col(c)) => (c, k),
                _ => return None,
            };
            // dictionaries are per partition: the constant has to occur in every flush group that holds strings at all
            let mut ranges = LAYOUT_RANGES.with(|r| r.borrow().clone());
            if ranges.is_empty() || ranges.last().map(|r| r.1) != Some(table.len) {
                ranges = vec![(0, table.len)];
            }
            let present = table.cols.get(c).map(|vals| {
                ranges.iter().all(|(a, b)| {
                    let slice = &vals[*a..(*b).min(vals.len())];
                    !slice.iter().any(|v| matches!(v, V::Str(_))) || slice.iter().any(|v| matches!(v, V::Str(s) if s == k))
                })
            }).unwrap_or(false);
            if !present {
                return Some("string_order_comparison_with_constant_absent_from_column".into());
            }
            None
        }
        E::Like(_, p, _) => {
            let chars: Vec<char> = p.chars().collect();
            let lead_or_double = chars.first() == Some(&'_') || chars.windows(2).any(|w| w[0] == '_' && w[1] == '_');
            if p == "%" {
                Some("like_pattern_lone_percent".into())
            } else if lead_or_double {
                Some("like_pattern_leading_or_consecutive_underscore".into())
            } else {
                Some(format!("like_pattern:{}", like_class(p)))
            }
        }
        _ => None,
    }
}

pub struct Env {
    pub gt: GenTable,
    pub db: Db,
    pub probe: Probe,
    pub sigs: BTreeMap<String, String>,
}

/// Realise a generated table plus its canonical twin for the capability probe.
pub fn setup(gt: GenTable, real: &Realisation, rng: &mut Rng, op: &OpCell) -> Env {
    let db = realise(&gt.table, real, op);
    set_layout(real);
    let canon = canonical_table("canon", &gt.defs, rng);
    let cdb = realise(&canon, &Realisation::single_buffer(canon.len), op);
    let sigs = db.codec_signatures(&gt.table.name).into_iter().map(|(n, s)| (n, s.join("+"))).collect();
    Env { gt, db, probe: Probe::new(canon, cdb), sigs }
}

fn run_case(id: String, seed: u64, n: usize, parts: usize, npreds: usize, disk: bool, out: &mut CaseOut, op: &OpCell) {
    let mut rng = Rng::derive(seed, &id, 0);
    let splits = random_splits(n, parts, &mut rng);
    let gt = make_table("t", &standard_columns(), &splits, &mut rng);
    let mut real = Realisation::partitions(&splits, 2);
    // last batch stays in the open buffer in half of the cases
    if rng.chance(0.5) {
        *real.flush_after.last_mut().unwrap() = false;
    }
    if disk {
        real.cfg = DbCfg { disk: true, partition_combine_factor: 999, mem_lz4: rng.chance(0.5), ..DbCfg::default() };
        real.evict = true;
    }
    let case = json!({"n": n, "splits": splits, "realisation": real.to_json()});
    let mut env = setup(gt, &real, &mut rng, op);
    let stats = col_stats(&env.gt.table);
    let pg = PredGen::new(&stats);
    for (c, s) in &env.sigs {
        out.set("codec_signatures", format!("{}", s));
        let _ = c;
    }
    let mut sample_done = false;
    for k in 0..npreds {
        let depth = if k % 3 == 0 { 0 } else { 1 + rng.below(3) };
        let (pred, label) = pg.tree(depth, &mut rng);
        let mut q = Q::new("t");
        q.select.push((col("id"), None));
        if rng.chance(0.3) {
            let c = rng.pick(&pg.cols).clone();
            q.select.push((col(&c), None));
        }
        q.filter = Some(pred.clone());
        let refa = qcheck::reference(&q, &env.gt.table);
        let nontrivial = match &refa {
            qcheck::RefAnswer::Sequence { rows, .. } => !rows.is_empty() && rows.len() < n,
            _ => false,
        };
        let table = &env.gt.table;
        let v = qcheck::check_diag(&q, table, &env.db, &mut env.probe, out, "filter", "where", &case, &|mq, mode, got, t| diagnose(mq, mode, got, t));
        if let Some(Verdict::Agree) = v {
            if nontrivial {
                // encoding signature of the first referenced column
                let mut cols = Vec::new();
                pred.cols(&mut cols);
                let sig = cols.first().and_then(|c| env.sigs.get(c)).cloned().unwrap_or_default();
                out.distinct(format!("{}|{}", label, sig));
                out.count("nontrivial_agree", 1);
                if !sample_done {
                    sample_done = true;
                    out.sample(json!({"sql": q.sql(), "rows_kept": match &refa { qcheck::RefAnswer::Sequence{rows,..} => rows.len(), _ => 0 }, "of": n, "splits": splits}));
                }
            }
        }
    }
    out.count("supported_shapes", env.probe.supported_shapes);
    out.count("unsupported_shapes", env.probe.unsupported_shapes);
    for s in &env.probe.unsupported_samples {
        out.set("unsupported_shape_samples", qcheck::trunc(s, 200));
    }
}

pub fn run(ctx: &mut Ctx) {
    let ncases = ctx.pick(144u64, 1200);
    let npreds = ctx.pick(140usize, 160);
    for i in 0..ncases {
        if i >= 48 && ctx.out_of_time() {
            break;
        }
        let id = format!("where-{}", i);
        if !ctx.take(&id) {
            continue;
        }
        let n = [120usize, 300, 700, 1500][(i % 4) as usize];
        let parts = 1 + (i % 4) as usize;
        let disk = i % 5 == 4;
        let seed = ctx.seed;
        let idc = id.clone();
        ctx.run(&id, "filter-query", json!({"n": n, "parts": parts, "disk": disk}), move |out, op| {
            run_case(idc, seed, n, parts, npreds, disk, out, op)
        });
    }
    let _ = tables::type_tag;
}
