//! C16 — client/server encodings are lossless.
use std::collections::{BTreeMap, HashMap};

use locustdb_compression_utils::xor_float;
use locustdb_serialization::api::{AnyVal, Column, MultiQueryResponse, QueryResponse};
use locustdb_serialization::event_buffer::{ColumnData, EventBuffer};
use serde_json::json;

use crate::ctx::Ctx;
use crate::drive::{event_buffer, rowapi_compatible, struct_compatible, wire_encode, Via};
use crate::gen;
use crate::model::{Batch, ColRepr, V};
use crate::report::{CaseOut, Failure};
use crate::rng::Rng;

fn coldata_logical(d: &ColumnData, rows: usize) -> Vec<V> {
    let mut out = vec![V::Null; rows];
    match d {
        ColumnData::Dense(x) => x.iter().enumerate().for_each(|(i, v)| out[i] = V::Float(*v)),
        ColumnData::Sparse(x) => x.iter().for_each(|(i, v)| out[*i as usize] = V::Float(*v)),
        ColumnData::I64(x) => x.iter().enumerate().for_each(|(i, v)| out[i] = V::Int(*v)),
        ColumnData::SparseI64(x) => x.iter().for_each(|(i, v)| out[*i as usize] = V::Int(*v)),
        ColumnData::String(x) => x.iter().enumerate().for_each(|(i, v)| out[i] = V::Str(v.clone())),
        ColumnData::Mixed(x) => x.iter().enumerate().for_each(|(i, v)| {
            out[i] = match v {
                AnyVal::Int(i) => V::Int(*i),
                AnyVal::Float(f) => V::Float(*f),
                AnyVal::Str(s) => V::Str(s.clone()),
                AnyVal::Null => V::Null,
            }
        }),
        ColumnData::Empty => {}
    }
    out
}

fn kind_of(d: &ColumnData) -> &'static str {
    match d {
        ColumnData::Dense(_) => "dense",
        ColumnData::Sparse(_) => "sparse",
        ColumnData::I64(_) => "i64",
        ColumnData::SparseI64(_) => "sparse_i64",
        ColumnData::String(_) => "string",
        ColumnData::Mixed(_) => "mixed",
        ColumnData::Empty => "empty",
    }
}

/// tables -> (rows, columns -> (kind, logical cells))
fn digest(eb: &EventBuffer) -> BTreeMap<String, (usize, BTreeMap<String, (&'static str, Vec<V>)>)> {
    let mut m = BTreeMap::new();
    for (t, tb) in &eb.tables {
        let rows = tb.len();
        let mut cols = BTreeMap::new();
        for (c, cb) in tb.columns() {
            let need = match &cb.data {
                ColumnData::Sparse(x) => x.iter().map(|p| p.0 as usize + 1).max().unwrap_or(0),
                ColumnData::SparseI64(x) => x.iter().map(|p| p.0 as usize + 1).max().unwrap_or(0),
                other => other.len(),
            };
            cols.insert(c.clone(), (kind_of(&cb.data), coldata_logical(&cb.data, rows.max(need))));
        }
        m.insert(t.clone(), (rows, cols));
    }
    m
}

fn batch_for(kind: &str, class: &str, pat: &str, rows: usize, rng: &mut Rng, table: &str) -> Batch {
    let vals = gen::apply_nulls(gen::gen_column(kind, class, rows, rng), &gen::null_pattern(pat, rows, rng));
    let mut cols = vec![("timestamp".to_string(), ColRepr::Dense((0..rows).map(|i| i as f64).collect()))];
    cols.push(("c".to_string(), ColRepr::from_logical(&vals)));
    cols.push(("m".to_string(), ColRepr::Mixed(vals.clone())));
    cols.push(("e".to_string(), ColRepr::Empty));
    Batch { table: table.to_string(), rows, cols }
}

fn event_buffer_roundtrips(rng: &mut Rng, out: &mut CaseOut, n: usize) {
    let classes = gen::all_classes();
    for i in 0..n {
        let (kind, class) = *rng.pick(&classes);
        let pat = *rng.pick(gen::NULL_PATTERNS);
        let rows = *rng.pick(&[0usize, 1, 2, 7, 8, 9, 64, 65, 200]);
        let b1 = batch_for(kind, class, pat, rows, rng, "t1");
        let b2 = batch_for("int", "u8", "none", 3, rng, "t2");
        let batches = vec![b1, b2];
        let case = json!({"kind": kind, "class": class, "nulls": pat, "rows": rows});
        // (1) wire message built from the schema -> deserialize: must carry exactly the logical content
        let bytes = wire_encode(&batches);
        out.eval(1);
        match EventBuffer::deserialize(&bytes) {
            Ok(eb) => {
                let d = digest(&eb);
                for b in &batches {
                    let got = d.get(&b.table);
                    let ok = got.map(|(r, cols)| *r == b.rows && b.cols.iter().all(|(n, r)| cols.get(n).map(|(k, vals)| *k == r.kind() && vals[..b.rows.min(vals.len())] == r.logical(b.rows)[..] && vals.len() >= b.rows || (r.kind() == "empty" && *k == "empty")).unwrap_or(false))).unwrap_or(false);
                    if !ok {
                        out.fail(Failure::new("wire", "event_buffer_decode", &format!("{}|{}", kind, pat), format!("wire message for {}/{}/{} rows={} decoded to different tables/columns/values", kind, class, pat, rows), case.clone()));
                    }
                }
                // (2) serialize(deserialize(x)) == x at the logical level
                out.eval(1);
                match EventBuffer::deserialize(&eb.serialize()) {
                    Ok(eb2) => {
                        if digest(&eb2) != d {
                            out.fail(Failure::new("wire", "event_buffer_reencode", &format!("{}|{}", kind, pat), format!("serialize/deserialize of {}/{}/{} rows={} changed the content", kind, class, pat, rows), case.clone()));
                        } else {
                            for b in &batches {
                                for (_, r) in &b.cols {
                                    out.distinct(format!("eventbuffer|{}|{}|{}|{}|rows{}", r.kind(), kind, class, pat, rows.min(65)));
                                }
                            }
                        }
                    }
                    Err(e) => out.fail(Failure::new("wire", "event_buffer_reencode_error", kind, format!("{}", e), case.clone())),
                }
            }
            Err(e) => out.fail(Failure::new("wire", "event_buffer_decode_error", kind, format!("{}", e), case.clone())),
        }
        // (3) native struct and row API builders -> serialize -> deserialize
        for via in [Via::Struct, Via::RowApi] {
            let usable: Vec<Batch> = batches
                .iter()
                .map(|b| {
                    let mut b = b.clone();
                    if via == Via::Struct {
                        b.cols.retain(|(_, r)| !matches!(r, ColRepr::Sparse(_) | ColRepr::SparseI64(_)));
                    } else {
                        b.cols.retain(|(n, r)| n != "m" && !matches!(r, ColRepr::Empty));
                    }
                    b
                })
                .filter(|b| if via == Via::Struct { struct_compatible(b) && b.rows > 0 } else { rowapi_compatible(b) })
                .collect();
            if usable.is_empty() {
                continue;
            }
            let eb = event_buffer(&usable, via);
            out.eval(1);
            match EventBuffer::deserialize(&eb.serialize()) {
                Ok(eb2) => {
                    let (a, b) = (digest(&eb), digest(&eb2));
                    if a != b {
                        out.fail(Failure::new("wire", "builder_roundtrip", &format!("{}|{}", via.name(), kind), format!("{} builder: serialize/deserialize changed {}/{}/{} rows={}", via.name(), kind, class, pat, rows), case.clone()));
                    }
                    // the row API must also represent the supplied cells
                    for ub in &usable {
                        if let Some((r, cols)) = b.get(&ub.table) {
                            let ok = *r == ub.rows && ub.cols.iter().all(|(n, rr)| {
                                let want = rr.logical(ub.rows);
                                cols.get(n).map(|(_, got)| got.len() >= want.len() && want.iter().zip(got.iter()).all(|(w, g)| w == g || matches!((w, g), (V::Int(i), V::Float(f)) if (*i as f64).to_bits() == f.to_bits()))).unwrap_or(want.iter().all(|v| v.is_null()))
                            });
                            if !ok {
                                out.fail(Failure::new("wire", "builder_content", &format!("{}|{}", via.name(), kind), format!("{} builder lost or changed cells of {}/{}/{} rows={}", via.name(), kind, class, pat, rows), case.clone()));
                            } else {
                                out.distinct(format!("builder|{}|{}|{}|{}", via.name(), kind, class, pat));
                            }
                        }
                    }
                }
                Err(e) => out.fail(Failure::new("wire", "builder_roundtrip_error", via.name(), format!("{}", e), case.clone())),
            }
        }
        if i == 0 {
            out.sample(json!({"event_buffer_roundtrip": case}));
        }
    }
}

/// Row API: columns whose cells change representation while the buffer is being filled
/// (dense -> sparse after a gap, int -> float promotion with and without a gap, late first value).
fn rowapi_transitions(rng: &mut Rng, out: &mut CaseOut, n: usize) {
    use locustdb_serialization::event_buffer::TableBuffer;
    for round in 0..n {
        let rows = 2 + rng.below(12);
        let ncols = 1 + rng.below(4);
        // per column: a script of cell kinds
        let mut cols: Vec<(String, Vec<V>)> = Vec::new();
        for c in 0..ncols {
            let style = rng.below(6);
            let mut vals = Vec::with_capacity(rows);
            let switch = rng.below(rows);
            for r in 0..rows {
                let v = match style {
                    // ints, then (after an optional gap) floats
                    0 => if r < switch { V::Int(r as i64 * 3 - 4) } else if r == switch && rng.chance(0.5) { V::Null } else { V::Float(r as f64 + 0.5) },
                    // ints with gaps, one float somewhere
                    1 => if r == switch { V::Float(2.5) } else if rng.chance(0.4) { V::Null } else { V::Int(r as i64) },
                    // first value arrives late
                    2 => if r < switch { V::Null } else if rng.chance(0.5) { V::Int(7 + r as i64) } else { V::Float(0.25 * r as f64) },
                    // floats with gaps
                    3 => if rng.chance(0.4) { V::Null } else { V::Float(r as f64 * 1.5) },
                    // ints with gaps
                    4 => if rng.chance(0.4) { V::Null } else { V::Int(i64::MAX - 1 - r as i64) },
                    // dense strings
                    _ => V::Str(format!("s{}", r)),
                };
                vals.push(v);
            }
            cols.push((format!("c{}", c), vals));
        }
        let mut tb = TableBuffer::default();
        for r in 0..rows {
            let mut row: Vec<(String, AnyVal)> = vec![("timestamp".to_string(), AnyVal::Float(r as f64))];
            for (name, vals) in &cols {
                let v = match &vals[r] {
                    V::Null => continue,
                    V::Int(i) => AnyVal::Int(*i),
                    V::Float(f) => AnyVal::Float(*f),
                    V::Str(s) => AnyVal::Str(s.clone()),
                };
                row.push((name.clone(), v));
            }
            tb.push_row_and_timestamp(row);
        }
        let mut tables = HashMap::new();
        tables.insert("t".to_string(), tb);
        let eb = EventBuffer { tables };
        out.eval(1);
        let case = json!({"rows": rows, "columns": cols.iter().map(|(n, v)| (n.clone(), v.iter().map(|x| x.short()).collect::<Vec<_>>())).collect::<Vec<_>>()});
        match EventBuffer::deserialize(&eb.serialize()) {
            Ok(back) => {
                let d = digest(&back);
                let ok = d.get("t").map(|(r, got)| {
                    *r == rows
                        && cols.iter().all(|(name, want)| {
                            let all_null = want.iter().all(|v| v.is_null());
                            match got.get(name) {
                                None => all_null,
                                Some((_, cells)) => {
                                    // a column that ever saw a float is a float column: ints are promoted with `as f64`
                                    let is_float = want.iter().any(|v| matches!(v, V::Float(_)));
                                    want.iter().enumerate().all(|(i, w)| {
                                        let g = cells.get(i).cloned().unwrap_or(V::Null);
                                        match (w, &g) {
                                            (V::Int(x), V::Float(f)) if is_float => (*x as f64).to_bits() == f.to_bits(),
                                            _ => *w == g,
                                        }
                                    }) && cells.iter().skip(want.len()).all(|v| v.is_null())
                                }
                            }
                        })
                }).unwrap_or(false);
                if ok {
                    out.distinct(format!("rowapi_transition|cols{}|rows{}|{}", ncols, rows, round % 7));
                } else {
                    out.fail(Failure::new("wire", "row_api_cells_misplaced", "rowapi", format!("row API buffer decodes to different cells: supplied {} got {:?}", case["columns"], d.get("t").map(|(r, c)| (r, c.iter().map(|(n, (k, v))| (n.clone(), *k, v.iter().map(|x| x.short()).collect::<Vec<_>>())).collect::<Vec<_>>()))), case));
                }
            }
            Err(e) => out.fail(Failure::new("wire", "builder_roundtrip_error", "rowapi", format!("{}", e), case)),
        }
    }
}

fn int_sequences(rng: &mut Rng) -> Vec<(String, Vec<i64>)> {
    let mut v: Vec<(String, Vec<i64>)> = vec![
        ("empty".into(), vec![]),
        ("len1".into(), vec![42]),
        ("len2".into(), vec![5, 9]),
        ("len3".into(), vec![1, 2, 4]),
        ("const".into(), vec![7; 20]),
        ("range_up".into(), (0..50).map(|i| 10 + 3 * i).collect()),
        ("range_down".into(), (0..50).map(|i| 1000 - 7 * i).collect()),
        ("min_max".into(), vec![i64::MIN, i64::MAX]),
        ("max_min_max".into(), vec![i64::MAX, i64::MIN, i64::MAX]),
        ("min_0_max".into(), vec![i64::MIN, 0, i64::MAX]),
        ("extremes_len2".into(), vec![i64::MIN, i64::MAX - 1]),
        ("big_then_small".into(), vec![i64::MAX - 3, i64::MAX - 2, i64::MAX - 1, i64::MIN + 2, i64::MIN + 3]),
    ];
    for (bits, name) in [(7u32, "i8"), (15, "i16"), (31, "i32")] {
        let m = (1i64 << bits) - 1; // max of the signed type
        for (d, tag) in [(m, "max"), (m + 1, "max+1"), (-m - 1, "min"), (-m - 2, "min-1")] {
            // delta exactly at / one beyond the boundary, among small irregular deltas
            let mut xs = vec![0i64, 3, 4];
            let last = *xs.last().unwrap();
            xs.push(last + d);
            xs.push(last + d + 2);
            xs.push(last + d + 3);
            v.push((format!("delta_{}_{}", name, tag), xs));
            // double delta at the boundary: deltas grow by d once
            let mut ys = vec![0i64, 1_000_000, 2_000_000];
            let mut delta = 1_000_000i64;
            for k in 0..4 {
                delta += if k == 1 { d } else { 1 };
                let last = *ys.last().unwrap();
                ys.push(last + delta);
            }
            v.push((format!("ddelta_{}_{}", name, tag), ys));
        }
    }
    for i in 0..6 {
        let n = 2 + rng.below(40);
        let mut xs = Vec::with_capacity(n);
        let mut x = rng.range(-1000, 1000);
        let step = [3i64, 200, 40_000, 3_000_000_000, 1 << 40, 1 << 61][i % 6];
        for _ in 0..n {
            x = x.saturating_add(rng.range(-step, step));
            xs.push(x);
        }
        v.push((format!("random_step{}", i), xs));
    }
    v
}

fn response_roundtrips(rng: &mut Rng, out: &mut CaseOut) {
    // integer compressions
    for (name, xs) in int_sequences(rng) {
        let mut cols = HashMap::new();
        cols.insert("c".to_string(), Column::Int(xs.clone()));
        let resp = MultiQueryResponse { responses: vec![QueryResponse { columns: cols }] };
        out.eval(1);
        let case = json!({"int_sequence": name, "values": xs.iter().take(12).collect::<Vec<_>>()});
        match MultiQueryResponse::deserialize(&resp.serialize()) {
            Ok(r) => match r.responses.first().and_then(|q| q.columns.get("c")) {
                Some(Column::Int(ys)) if *ys == xs => out.distinct(format!("response_int|{}", name)),
                Some(Column::Int(ys)) => out.fail(Failure::new("wire", "int_column_changed", &name.split('_').next().unwrap_or("").to_string(), format!("Int column {} decoded to different values: sent {:?} got {:?}", name, xs.iter().take(8).collect::<Vec<_>>(), ys.iter().take(8).collect::<Vec<_>>()), case)),
                other => out.fail(Failure::new("wire", "int_column_kind", "kind", format!("Int column {} decoded as {:?}", name, other.map(|c| c.len())), case)),
            },
            Err(e) => out.fail(Failure::new("wire", "response_decode_error", "int", format!("{}", e), case)),
        }
    }
    // other column kinds
    let floats: Vec<f64> = gen::gen_floats("mixed_special", 30, rng).into_iter().chain(gen::gen_floats("nan_payload", 8, rng)).chain(vec![-0.0, f64::INFINITY, f64::NEG_INFINITY]).collect();
    let strs = gen::gen_strs("unicode", 20, rng);
    let mixed: Vec<AnyVal> = vec![AnyVal::Int(i64::MIN), AnyVal::Float(-0.0), AnyVal::Str("ü".into()), AnyVal::Null, AnyVal::Int(i64::MAX)];
    let xor = xor_float::double::encode(&floats, 100, None);
    let mut cols = HashMap::new();
    cols.insert("f".to_string(), Column::Float(floats.clone()));
    cols.insert("s".to_string(), Column::String(strs.clone()));
    cols.insert("m".to_string(), Column::Mixed(mixed.clone()));
    cols.insert("n".to_string(), Column::Null(17));
    cols.insert("x".to_string(), Column::Xor(xor.clone()));
    let resp = MultiQueryResponse { responses: vec![QueryResponse { columns: cols }, QueryResponse { columns: HashMap::new() }] };
    out.eval(1);
    match MultiQueryResponse::deserialize(&resp.serialize()) {
        Ok(r) => {
            let ok = r.responses.len() == 2
                && matches!(r.responses[0].columns.get("f"), Some(Column::Float(y)) if y.iter().map(|v| v.to_bits()).collect::<Vec<_>>() == floats.iter().map(|v| v.to_bits()).collect::<Vec<_>>())
                && matches!(r.responses[0].columns.get("s"), Some(Column::String(y)) if *y == strs)
                && matches!(r.responses[0].columns.get("n"), Some(Column::Null(17)))
                && matches!(r.responses[0].columns.get("x"), Some(Column::Xor(y)) if *y == xor)
                && matches!(r.responses[0].columns.get("m"), Some(Column::Mixed(y)) if format!("{:?}", y) == format!("{:?}", mixed));
            if ok {
                out.distinct("response_float_string_mixed_null_xor".into());
            } else {
                out.fail(Failure::new("wire", "response_column_changed", "float/string/mixed/null/xor", "a non-integer response column did not round-trip".into(), json!({})));
            }
        }
        Err(e) => out.fail(Failure::new("wire", "response_decode_error", "other", format!("{}", e), json!({}))),
    }
}

fn float_sequences(rng: &mut Rng) -> Vec<(String, Vec<f64>)> {
    let mut v = vec![
        ("empty".to_string(), vec![]),
        ("single".to_string(), vec![1.5]),
        ("repeats".to_string(), vec![3.25; 40]),
        ("sign_flips".to_string(), (0..40).map(|i| if i % 2 == 0 { 1.0e10 } else { -1.0e10 }).collect()),
        ("alternating_magnitudes".to_string(), (0..40).map(|i| if i % 2 == 0 { 1.0e-300 } else { 1.0e300 }).collect()),
        ("specials".to_string(), vec![0.0, -0.0, f64::INFINITY, f64::NEG_INFINITY, f64::MIN_POSITIVE, f64::MAX, f64::MIN, f64::EPSILON]),
        ("nan_payloads".to_string(), vec![f64::NAN, f64::from_bits(0x7ff8_0000_0000_1234), f64::from_bits(0xfff8_0000_0000_0001), 1.0, f64::from_bits(0x7ff0_0000_0000_0001)]),
        ("subnormals".to_string(), (1..30u64).map(|i| f64::from_bits(i * 0x1234_5678_9)).collect()),
        ("low_bits_only".to_string(), (0..40u64).map(|i| f64::from_bits(0x3ff0_0000_0000_0000 + i)).collect()),
        ("high_bits_only".to_string(), (0..40u64).map(|i| f64::from_bits((0x3ff0 + i) << 48)).collect()),
    ];
    for c in ["f32_exact", "f64_noise", "int_valued", "mixed_special"] {
        v.push((format!("class_{}", c), gen::gen_floats(c, 60, rng)));
    }
    // nullable float result columns travel with the engine's NULL marker in place of NULL
    let with_null: Vec<f64> = gen::gen_floats("f32_exact", 60, rng).into_iter().enumerate().map(|(i, x)| if i % 3 == 1 { f64::from_bits(crate::model::F64_NULL_BITS) } else { x }).collect();
    v.push(("with_null_markers".to_string(), with_null));
    v
}

fn xor_roundtrips(rng: &mut Rng, out: &mut CaseOut) {
    let all: Vec<u32> = (0..=52).collect();
    xor_roundtrips_with(rng, out, &[0, 1, 100], &all)
}

/// Interpreter-lane slice of the codec round trips (see props/sanlane.rs): the same oracles, a fraction of the grid per round.
pub fn tiny(rng: &mut Rng, out: &mut CaseOut, round: u64) {
    event_buffer_roundtrips(rng, out, 2);
    rowapi_transitions(rng, out, 4);
    if round % 4 == 0 {
        response_roundtrips(rng, out);
    }
    let regret = [0u32, 1, 100][(round % 3) as usize];
    let mantissas: Vec<u32> = (0..=52u32).filter(|m| *m == 0 || *m == 52 || (*m as u64) % 8 == round % 8).collect();
    xor_roundtrips_with(rng, out, &[regret], &mantissas);
}

fn xor_roundtrips_with(rng: &mut Rng, out: &mut CaseOut, regrets: &[u32], mantissas: &[u32]) {
    for (name, xs) in float_sequences(rng) {
        for &regret in regrets {
            // exact
            let enc = xor_float::double::encode(&xs, regret, None);
            out.eval(1);
            let case = json!({"float_sequence": name, "regret": regret});
            match xor_float::double::decode(&enc) {
                Ok(ys) => {
                    let same = ys.len() == xs.len() && xs.iter().zip(ys.iter()).all(|(a, b)| a.to_bits() == b.to_bits());
                    if same {
                        out.distinct(format!("xor_exact|{}|regret{}", name, regret));
                    } else {
                        let pos = xs.iter().zip(ys.iter()).position(|(a, b)| a.to_bits() != b.to_bits());
                        out.fail(Failure::new("wire", "xor_not_bit_exact", &name, format!("xor_float {} regret={}: {} values sent, {} decoded, first difference at {:?}", name, regret, xs.len(), ys.len(), pos), case.clone()));
                    }
                }
                Err(e) => out.fail(Failure::new("wire", "xor_decode_error", &name, format!("{:?}", e), case.clone())),
            }
            // reduced mantissa: sign, exponent and the leading m mantissa bits survive
            for &m in mantissas {
                let enc = xor_float::double::encode(&xs, regret, Some(m));
                out.eval(1);
                match xor_float::double::decode(&enc) {
                    Ok(ys) => {
                        let keep: u64 = if m == 0 { 0xfff0_0000_0000_0000 } else { !((1u64 << (52 - m)) - 1) };
                        let bad = ys.len() != xs.len() || xs.iter().zip(ys.iter()).any(|(a, b)| (a.to_bits() & keep) != (b.to_bits() & keep));
                        if bad {
                            out.fail(Failure::new("wire", "xor_mantissa_bits_lost", &format!("{}|m={}", name, if m < 4 { "0-3" } else if m > 48 { "49-52" } else { "4-48" }), format!("xor_float {} regret={} mantissa={}: sign/exponent/leading mantissa bits changed or length differs ({} vs {})", name, regret, m, xs.len(), ys.len()), json!({"float_sequence": name, "regret": regret, "mantissa": m})));
                            break;
                        } else if regret == 1 {
                            out.distinct(format!("xor_mantissa|{}|m{}", name, m));
                        }
                    }
                    Err(e) => {
                        out.fail(Failure::new("wire", "xor_decode_error", &name, format!("mantissa {}: {:?}", m, e), case.clone()));
                        break;
                    }
                }
            }
        }
    }
}

pub fn run(ctx: &mut Ctx) {
    let rounds = ctx.pick(16u64, 400);
    for i in 0..rounds {
        let id = format!("codec-{}", i);
        if !ctx.take(&id) {
            continue;
        }
        let seed = ctx.seed;
        let n = ctx.pick(150usize, 400);
        ctx.run(&id, "codec-roundtrip", json!({"round": i}), move |out, _op| {
            let mut rng = Rng::derive(seed, "c16", i);
            event_buffer_roundtrips(&mut rng, out, n);
            rowapi_transitions(&mut rng, out, n * 4);
            response_roundtrips(&mut rng, out);
            xor_roundtrips(&mut rng, out);
        });
    }
}
