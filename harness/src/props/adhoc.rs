//! Debug helper: run SQL statements against the standard generated table and print engine answer.
use crate::drive::Db;
use crate::guard::OpCell;
use crate::rng::Rng;
use crate::tables::{make_table, random_splits, realise, standard_columns, Realisation};

pub fn main(args: &[String]) -> i32 {
    let n: usize = args.first().and_then(|s| s.parse().ok()).unwrap_or(120);
    let parts: usize = args.get(1).and_then(|s| s.parse().ok()).unwrap_or(1);
    let mut rng = Rng::new(7);
    let splits = random_splits(n, parts, &mut rng);
    let gt = make_table("t", &standard_columns(), &splits, &mut rng);
    let op = OpCell::default();
    let db: Db = realise(&gt.table, &Realisation::partitions(&splits, 1), &op);
    for sql in &args[2..] {
        println!("== {}", sql);
        match db.query_opts(sql, true, true) {
            Ok(q) => {
                println!("   {} rows; colnames {:?}; kinds {:?}", q.rows.len(), q.colnames, q.col_kinds);
                for r in q.rows.iter().take(12) {
                    println!("   {:?}", r.iter().map(|v| v.short()).collect::<Vec<_>>());
                }
                for p in q.plans.iter().take(1) {
                    println!("{}", p);
                }
            }
            Err(e) => println!("   ERR {} {}", e.kind, e.msg),
        }
    }
    0
}
