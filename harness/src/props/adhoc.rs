//! Debug helper: run SQL statements against a generated table and print engine answer + reference verdict.
use crate::guard::OpCell;
use crate::props::c04;
use crate::qcheck;
use crate::rng::Rng;
use crate::tables::{make_table, random_splits, realise, standard_columns, Realisation};

pub fn main(args: &[String]) -> i32 {
    crate::guard::install_panic_hook(true);
    let kind = args.first().map(|s| s.as_str()).unwrap_or("std");
    let n: usize = args.get(1).and_then(|s| s.parse().ok()).unwrap_or(120);
    let parts: usize = args.get(2).and_then(|s| s.parse().ok()).unwrap_or(1);
    let mut rng = Rng::new(7);
    let splits = random_splits(n, parts, &mut rng);
    let gt = if kind == "canon" {
        let mut gt = make_table("t", &c04::group_columns(), &splits, &mut rng);
        c04::add_key_columns(&mut gt, &mut rng, "interleaved");
        let canon = crate::tables::canonical_table("t", &gt.defs, &mut rng);
        crate::tables::GenTable { table: canon, defs: gt.defs.clone(), splits: vec![16] }
    } else if kind == "grp" {
        let mut gt = make_table("t", &c04::group_columns(), &splits, &mut rng);
        c04::add_key_columns(&mut gt, &mut rng, "interleaved");
        gt
    } else {
        make_table("t", &standard_columns(), &splits, &mut rng)
    };
    let op = OpCell::default();
    let splits = gt.splits.clone();
    let db = realise(&gt.table, &Realisation::partitions(&splits, std::env::var("LVERIF_THREADS").ok().and_then(|s| s.parse().ok()).unwrap_or(1)), &op);
    for sql in &args[3..] {
        println!("== {}", sql);
        let explain = std::env::var("LVERIF_EXPLAIN").is_ok();
        let got = db.query_opts(sql, explain, true);
        if let (true, Ok(q)) = (explain, &got) {
            for p in &q.plans {
                println!("   PLAN {}", p);
            }
        }
        match &got {
            Ok(q) => {
                println!("   {} rows; colnames {:?}; kinds {:?}", q.rows.len(), q.colnames, q.col_kinds);
                for r in q.rows.iter().take(40) {
                    println!("   {:?}", r.iter().map(|v| v.short()).collect::<Vec<_>>());
                }
            }
            Err(e) => println!("   ERR {} {}", e.kind, e.msg.chars().take(200).collect::<String>()),
        }
        // reference
        if let Some(q) = parse_simple(sql) {
            let _ = q;
        }
        if got.as_ref().err().map(|e| e.kind == "Canceled").unwrap_or(false) {
            return 1;
        }
    }
    let _ = qcheck::trunc;
    0
}

fn parse_simple(_sql: &str) -> Option<()> {
    None
}
