//! C08 — acknowledged data survives a clean restart, exactly once.
use serde_json::json;

use crate::ctx::Ctx;
use crate::drive::{DbCfg, Via};
use crate::guard::OpCell;
use crate::hist::{history_string, Op, World};
use crate::model::{Batch, ColRepr, V};
use crate::report::{CaseOut, Failure};
use crate::rng::Rng;

/// A small batch for `table` whose uids continue the table's sequence: uid = request# * 2^20 + row#.
pub fn mk_batch(table: &str, req: u64, rows: usize, rng: &mut Rng) -> Batch {
    let uid: Vec<i64> = (0..rows as i64).map(|r| (req as i64) * (1 << 20) + r).collect();
    let val: Vec<f64> = (0..rows).map(|r| req as f64 + r as f64 * 0.25).collect();
    let s: Vec<String> = (0..rows).map(|r| format!("{}-{}-{}", table, req, r % 3)).collect();
    let mut n: Vec<(u64, i64)> = Vec::new();
    for r in 0..rows as u64 {
        if rng.chance(0.6) {
            n.push((r, rng.range(-500, 70_000)));
        }
    }
    let mut cols = vec![
        ("uid".to_string(), ColRepr::I64(uid)),
        ("val".to_string(), ColRepr::Dense(val)),
        ("s".to_string(), ColRepr::Str(s)),
    ];
    if !n.is_empty() {
        cols.push(("n".to_string(), ColRepr::SparseI64(n)));
    }
    if req % 3 == 1 {
        // a column that only some requests carry
        cols.push((format!("late{}", req % 2), ColRepr::Mixed((0..rows).map(|r| if r % 2 == 0 { V::Int(r as i64) } else { V::Null }).collect())));
    }
    Batch { table: table.to_string(), rows, cols }
}

fn run_history(id: String, letters: Vec<u8>, cfg: DbCfg, quiescent: bool, seed: u64, out: &mut CaseOut, op: &OpCell) {
    let mut rng = Rng::derive(seed, &id, 0);
    let mut w = World::open(&cfg, Via::Wire, op);
    let mut ops = Vec::new();
    let mut req = 0u64;
    let case = |ops: &Vec<Op>| json!({"history": history_string(ops), "cfg": cfg.to_json(), "quiescent_restart": quiescent});
    let mut n_ingest = 0;
    let mut n_restart = 0;
    let mut flush_before_restart = false;
    let mut letters = letters;
    letters.push(b'R'); // always finish with a restart so that everything acknowledged is checked after reopening
    for (i, l) in letters.iter().enumerate() {
        let o = match l {
            b'A' | b'B' | b'C' => {
                req += 1;
                n_ingest += 1;
                let rows = 2 + rng.below(4);
                let bs = match l {
                    b'A' => vec![mk_batch("ta", req, rows, &mut rng)],
                    b'B' => vec![mk_batch("tb", req, rows, &mut rng)],
                    _ => vec![mk_batch("ta", req, rows, &mut rng), mk_batch("tb", req, rows + 1, &mut rng)],
                };
                Op::Ingest(bs)
            }
            b'F' => {
                flush_before_restart = true;
                Op::Flush
            }
            _ => {
                n_restart += 1;
                Op::Restart { quiescent }
            }
        };
        w.apply(&o);
        let is_restart = matches!(o, Op::Restart { .. });
        ops.push(o);
        if is_restart || i + 1 == letters.len() {
            let (wal_lo, wal_hi, wal_size) = w.db.handle().verif_wal();
            out.set("wal_state_at_restart", format!("segments_replayed={} flushed_before={}", (wal_hi - wal_lo).min(5), flush_before_restart));
            let _ = wal_size;
            let mut mism = w.check_tables();
            mism.extend(w.check_catalogue());
            out.eval(w.model.len() as u64 + 1);
            for m in mism {
                out.fail(Failure::new(
                    "restart",
                    &m.mode,
                    &format!("table_kind={}", if m.table.starts_with("_meta") { "catalogue" } else { "user" }),
                    format!("after '{}': table {}: {}", history_string(&ops), m.table, m.detail),
                    case(&ops),
                ));
            }
            flush_before_restart = false;
        }
    }
    if n_ingest > 0 && n_restart > 0 {
        out.distinct(format!("{}|{}", history_string(&ops), if cfg.max_wal_files < 1000 || cfg.max_wal_size_bytes < 1000 { "small_wal" } else { "default" }));
    }
    out.count("restarts", n_restart as u64 + 1);
    out.count("ingests", n_ingest as u64);
    if id.ends_with("7") {
        out.sample(json!({"history": history_string(&ops), "tables": w.model.iter().map(|(k, t)| (k.clone(), t.len)).collect::<Vec<_>>()}));
    }
}

pub fn run(ctx: &mut Ctx) {
    let alphabet = [b'A', b'B', b'C', b'F', b'R'];
    let max_len = ctx.pick(5usize, 7);
    // bounded-exhaustive: every word over the alphabet up to max_len
    for len in 1..=max_len {
        let total = alphabet.len().pow(len as u32);
        for idx in 0..total {
            let mut letters = Vec::with_capacity(len);
            let mut x = idx;
            for _ in 0..len {
                letters.push(alphabet[x % alphabet.len()]);
                x /= alphabet.len();
            }
            // words without any ingest carry no information
            if !letters.iter().any(|l| matches!(l, b'A' | b'B' | b'C')) {
                continue;
            }
            let id = format!("exh-{}", String::from_utf8_lossy(&letters));
            if !ctx.take(&id) {
                continue;
            }
            // thorough tier, length 7: stop when the budget is gone (reported through `exhaustive`)
            if len == 7 && ctx.out_of_time() {
                ctx.report.notes.push("length-7 enumeration truncated by budget".into());
                return;
            }
            let cfg = DbCfg { disk: true, io_threads: if idx % 2 == 0 { 1 } else { 4 }, partition_combine_factor: [4u64, 1, 0][idx % 3], ..DbCfg::default() };
            let seed = ctx.seed;
            let idc = id.clone();
            ctx.run(&id, "history", json!({"letters": String::from_utf8_lossy(&letters)}), move |out, op| {
                run_history(idc, letters, cfg, false, seed, out, op)
            });
        }
    }
    ctx.report.counters.insert("exhaustive_max_len".into(), max_len as u64);
    // random longer histories with WAL limits small enough that background flushes trigger on their own
    let nrand = ctx.pick(32u64, 600);
    for i in 0..nrand {
        if i >= 32 && ctx.out_of_time() {
            break;
        }
        let id = format!("rand-{}", i);
        if !ctx.take(&id) {
            continue;
        }
        let mut rng = Rng::derive(ctx.seed, &id, 1);
        let len = 6 + rng.below(ctx.pick(8, 30));
        let letters: Vec<u8> = (0..len).map(|_| *rng.pick(&[b'A', b'B', b'C', b'C', b'F', b'R'])).collect();
        let cfg = DbCfg {
            disk: true,
            max_wal_files: *rng.pick(&[1usize, 2, 1000]),
            max_wal_size_bytes: *rng.pick(&[0u64, 200, 64 << 20]),
            io_threads: *rng.pick(&[1usize, 4]),
            wal_flush_compaction_threads: *rng.pick(&[1usize, 3]),
            partition_combine_factor: *rng.pick(&[0u64, 1, 4, 999]),
            ..DbCfg::default()
        };
        let seed = ctx.seed;
        let idc = id.clone();
        ctx.run(&id, "history", json!({"letters": String::from_utf8_lossy(&letters), "cfg": cfg.to_json()}), move |out, op| {
            run_history(idc, letters, cfg, true, seed, out, op)
        });
    }
}
