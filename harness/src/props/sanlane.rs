//! Tiny workloads for the interpreter lane (Miri): the same real code paths as the property workloads, at sizes that an
//! interpreter four orders of magnitude slower than native code can afford. Each lane is attached to one or more
//! properties by the driver (`./check <P> --tier thorough`), which runs `lverif MIRI-<lane>` under `cargo miri run`.
//!
//!   MIRI-codec   (C16)       wire message / row API / response / xor-float round trips
//!   MIRI-column  (C01, C07)  ColumnBuffer -> finalize -> stand-alone decoder (the one compaction uses) -> re-push -> decode
//!   MIRI-files   (C14)       PartitionSegment / MetaStore / WalSegment serialize -> store -> load -> deserialize
//!   MIRI-db      (C01, C07, C10)  a whole database: ingest (2 batches) || flush+compaction || query, disk-backed, eviction
//!
//! The behavioural oracles stay on (a wrong value is a failure here as well); what the lane adds is the interpreter's
//! verdict on every `unsafe` block and every cross-thread access the workload reaches (undefined behaviour, data races).
use std::sync::atomic::{AtomicUsize, Ordering};
use std::sync::Arc;

use locustdb::verif::DataSource;
use serde_json::json;

use crate::ctx::Ctx;
use crate::drive::{fresh_dir, Db, DbCfg, Via};
use crate::gen;
use crate::model::{join_type, Batch, ColRepr, V};
use crate::props::c14;
use crate::report::{CaseOut, Failure};
use crate::rng::Rng;

fn column_cycle(kind: &str, class: &str, pat: &str, rows: usize, rng: &mut Rng, out: &mut CaseOut) {
    let vals = gen::apply_nulls(gen::gen_column(kind, class, rows, rng), &gen::null_pattern(pat, rows, rng));
    let ct = join_type(&vals);
    let case = json!({"kind": kind, "class": class, "nulls": pat, "rows": rows});
    let col = c14::build_column("c", &vals);
    let sig = col.codec().signature(false);
    let decoded = c14::decode_column(&col);
    out.eval(1);
    let same = decoded.len() == vals.len() && vals.iter().zip(decoded.iter()).all(|(a, b)| crate::model::cell_matches(a, b, ct));
    if !same {
        out.fail(Failure::new("miri-column", "decoded_values_changed", &sig, format!("{}/{}/{} rows={} decodes to different values", kind, class, pat, rows), case.clone()));
        return;
    }
    // what compaction does per column: decode, push into a fresh builder, finalize, and the result must decode to the same cells
    let rebuilt = c14::build_column("c", &decoded);
    let again = c14::decode_column(&rebuilt);
    out.eval(1);
    if again != decoded {
        out.fail(Failure::new("miri-column", "recompacted_values_changed", &sig, format!("{}/{}/{} rows={} changes when decoded and rebuilt", kind, class, pat, rows), case));
        return;
    }
    out.distinct(format!("column|{}|{}|{}", sig, pat, rows));
    out.set("codec_signatures", sig);
}

fn run_column(ctx: &mut Ctx) {
    let pats = ["none", "alternating", "first", "all_but_last", "all"];
    let lens = [1usize, 9, 40];
    let seed = ctx.seed;
    for (ci, (kind, class)) in gen::all_classes().into_iter().enumerate() {
        // one case per class; null pattern and length rotate with the seed so that repeated runs cover the grid
        let id = format!("col-{}-{}", kind, class);
        if !ctx.take(&id) {
            continue;
        }
        if ctx.out_of_time() {
            break;
        }
        ctx.run(&id, "column-cycle", json!({"kind": kind, "class": class}), move |out, _op| {
            let mut rng = Rng::derive(seed, "miri-col", ci as u64);
            for k in 0..2usize {
                let pat = pats[(ci + seed as usize + k * 2) % pats.len()];
                let rows = lens[(ci + seed as usize + k) % lens.len()];
                // the large classes (long strings, > 255 distinct) are cut down to what the interpreter can afford
                let rows = if class.starts_with("len") || class == "dict_gt255" { rows.min(9) } else { rows };
                column_cycle(kind, class, pat, rows, &mut rng, out);
            }
        });
    }
}

fn run_codec(ctx: &mut Ctx) {
    let seed = ctx.seed;
    for i in 0..64u64 {
        let id = format!("codec-{}", i);
        if !ctx.take(&id) {
            continue;
        }
        if ctx.out_of_time() {
            break;
        }
        ctx.run(&id, "codec-roundtrip", json!({"round": i}), move |out, _op| {
            let mut rng = Rng::derive(seed, "miri-codec", i);
            crate::props::c16::tiny(&mut rng, out, i);
        });
    }
}

fn run_files(ctx: &mut Ctx) {
    let seed = ctx.seed;
    for i in 0..64u64 {
        let id = format!("files-{}", i);
        if !ctx.take(&id) {
            continue;
        }
        if ctx.out_of_time() {
            break;
        }
        ctx.run(&id, "file-roundtrip", json!({"round": i}), move |out, _op| {
            let mut rng = Rng::derive(seed, "miri-files", i);
            let dir = fresh_dir("mirifiles");
            c14::tiny(&mut rng, out, &dir);
            let _ = std::fs::remove_dir_all(&dir);
        });
    }
}

fn uid_batch(table: &str, first: i64, rows: usize, rng: &mut Rng) -> Batch {
    let uids: Vec<V> = (0..rows).map(|i| V::Int(first + i as i64)).collect();
    let strs: Vec<V> = (0..rows).map(|i| if i % 3 == 0 { V::Null } else { V::Str(format!("s{}", (first + i as i64) % 5)) }).collect();
    let packed: Vec<V> = (0..rows).map(|i| V::Str(format!("{:x}{:x}", rng.next_u64(), first + i as i64))).collect();
    let floats: Vec<V> = (0..rows).map(|i| if i % 4 == 1 { V::Null } else { V::Float((first + i as i64) as f64 * 0.5) }).collect();
    Batch {
        table: table.to_string(),
        rows,
        cols: vec![
            ("uid".into(), ColRepr::from_logical(&uids)),
            ("s".into(), ColRepr::from_logical(&strs)),
            ("p".into(), ColRepr::from_logical(&packed)),
            ("f".into(), ColRepr::from_logical(&floats)),
        ],
    }
}

/// ingest || flush (+compaction, combine factor 1) || query on a disk-backed database, then eviction and a cold read.
/// Oracle: every answer is a prefix 0..k of the uid sequence with k >= rows acknowledged before the query was issued.
fn db_micro(seed: u64, round: u64, out: &mut CaseOut, op: &crate::guard::OpCell) {
    let mut rng = Rng::derive(seed, "miri-db", round);
    let rows = 6usize;
    let nbatches = 3usize;
    let cfg = DbCfg { disk: true, threads: 2, partition_combine_factor: 1, mem_lz4: round % 2 == 0, ..DbCfg::default() };
    let db = Db::open(&cfg, op);
    let h = db.handle().clone();
    let acked = Arc::new(AtomicUsize::new(0));
    let batches: Vec<Batch> = (0..nbatches).map(|b| uid_batch("t", (b * rows) as i64, rows, &mut rng)).collect();

    let h1 = h.clone();
    let acked1 = acked.clone();
    let ingester = std::thread::spawn(move || {
        for b in batches {
            let eb = crate::drive::event_buffer(&[b], Via::Wire);
            crate::drive::poll_to_completion(h1.ingest_efficient(eb));
            acked1.fetch_add(rows, Ordering::SeqCst);
        }
    });
    let h2 = h.clone();
    let flusher = std::thread::spawn(move || {
        for _ in 0..2 {
            h2.force_flush();
        }
    });
    let mut observed = Vec::new();
    for q in 0..3 {
        let before = acked.load(Ordering::SeqCst);
        let sql = if q % 2 == 0 { "SELECT uid, s, f FROM t" } else { "SELECT uid, p FROM t WHERE uid >= 0" };
        let r = db.query(sql);
        out.eval(1);
        match r {
            Ok(o) => {
                let uids: Vec<i64> = o.rows.iter().filter_map(|r| if let V::Int(i) = r[0] { Some(i) } else { None }).collect();
                let want: Vec<i64> = (0..uids.len() as i64).collect();
                if uids != want || uids.len() < before || uids.len() % rows != 0 {
                    out.fail(Failure::new("miri-db", "not_a_prefix", sql, format!("{} rows acknowledged before the query, answer uids {:?}", before, uids), json!({"round": round})));
                }
                observed.push(uids.len());
            }
            Err(e) => {
                // the table does not exist before the first acknowledged request
                if before > 0 {
                    out.fail(Failure::new("miri-db", "query_failed", &e.kind, format!("{} {} after {} acknowledged rows", e.kind, e.msg, before), json!({"round": round})));
                }
            }
        }
    }
    let _ = ingester.join();
    let _ = flusher.join();
    db.flush();
    let evicted = db.evict();
    let cold = db.query("SELECT uid, s, p, f FROM t");
    out.eval(1);
    match cold {
        Ok(o) => {
            let mut rng2 = Rng::derive(seed, "miri-db", round);
            let expect: Vec<Batch> = (0..nbatches).map(|b| uid_batch("t", (b * rows) as i64, rows, &mut rng2)).collect();
            let mut want: Vec<Vec<V>> = Vec::new();
            for b in &expect {
                let cols: Vec<Vec<V>> = b.cols.iter().map(|(_, r)| r.logical(b.rows)).collect();
                for r in 0..b.rows {
                    want.push(cols.iter().map(|c| c[r].clone()).collect());
                }
            }
            if o.rows != want {
                out.fail(Failure::new("miri-db", "cold_read_differs", "select", format!("after flush+evict ({} evicted) the table reads back differently: {} rows vs {}", evicted, o.rows.len(), want.len()), json!({"round": round})));
            } else {
                out.distinct(format!("db|lz4={}|evicted>0={}|prefixes={:?}", cfg.mem_lz4, evicted > 0, observed));
            }
        }
        Err(e) => out.fail(Failure::new("miri-db", "query_failed", &e.kind, format!("cold read: {} {}", e.kind, e.msg), json!({"round": round}))),
    }
    for (t, sigs) in db.codec_signatures("t") {
        for s in sigs {
            out.set("codec_signatures", format!("{}:{}", t, s));
        }
    }
}

fn run_db(ctx: &mut Ctx) {
    let seed = ctx.seed;
    for i in 0..32u64 {
        let id = format!("db-{}", i);
        if !ctx.take(&id) {
            continue;
        }
        if ctx.out_of_time() {
            break;
        }
        ctx.run(&id, "db-micro", json!({"round": i}), move |out, op| db_micro(seed, i, out, op));
    }
}

pub fn run(ctx: &mut Ctx) -> bool {
    match ctx.prop.as_str() {
        "MIRI-codec" => run_codec(ctx),
        "MIRI-column" => run_column(ctx),
        "MIRI-files" => run_files(ctx),
        "MIRI-db" => run_db(ctx),
        _ => return false,
    }
    true
}
