//! C12 — every query string gets a well-formed answer or an error value.
use serde_json::json;

use crate::ctx::Ctx;
use crate::drive::{Db, QErr, QOut};
use crate::guard::OpCell;
use crate::model::V;
use crate::props::c03::{col_stats, PredGen};
use crate::props::c04;
use crate::report::{CaseOut, Failure};
use crate::rng::Rng;
use crate::sql::{sql_ident, E, Q};
use crate::tables::{make_table, realise, standard_columns, Realisation};

pub const UNSUPPORTED: &[&str] = &[
    "SELECT a.id FROM t a JOIN t b ON a.id = b.id",
    "SELECT id FROM t, t",
    "SELECT i_u8, COUNT(0) FROM t GROUP BY i_u8",
    "SELECT i_u8, COUNT(0) FROM t GROUP BY i_u8 HAVING COUNT(0) > 1",
    "SELECT DISTINCT i_u8 FROM t",
    "SELECT id FROM (SELECT id FROM t) x",
    "SELECT id FROM t WHERE i_u8 IN (1, 2, 3)",
    "SELECT id FROM t WHERE i_u8 IN (SELECT i_u8 FROM t)",
    "SELECT id FROM t WHERE i_u8 BETWEEN 1 AND 5",
    "SELECT CASE WHEN i_u8 > 3 THEN 1 ELSE 0 END FROM t",
    "SELECT CAST(i_u8 AS VARCHAR) FROM t",
    "SELECT id FROM t UNION SELECT id FROM t",
    "SELECT id, ROW_NUMBER() OVER (ORDER BY id) FROM t",
    "SELECT id FROM t; SELECT id FROM t",
    "INSERT INTO t (id) VALUES (1)",
    "UPDATE t SET id = 1",
    "DELETE FROM t",
    "DROP TABLE t",
    "CREATE TABLE x (a INT)",
    "SELECT id FROM t LIMIT 1.5",
    "SELECT id FROM t LIMIT 99999999999999999999",
    "SELECT id FROM t LIMIT -1",
    "SELECT id FROM t LIMIT 1 OFFSET 1.5",
    "SELECT id FROM t OFFSET 3",
    "SELECT id FROM t LIMIT 3 OFFSET 1000000",
    "SELECT id FROM t LIMIT 18446744073709551615 OFFSET 5",
    "SELECT id FROM t ORDER BY id LIMIT 18446744073709551615 OFFSET 18446744073709551615",
    "SELECT id FROM t LIMIT i_u8",
    "SELECT id FROM t LIMIT ALL",
    "SELECT id FROM t ORDER BY id NULLS FIRST",
    "SELECT * FROM t WHERE",
    "SELECT FROM t",
    "SELECT id FROM",
    "SELECT id id2 id3 FROM t",
    "SELECT id FROM nonexistent_table",
    "SELECT * FROM nonexistent_table",
    "SELECT COUNT(0) FROM nonexistent_table",
    "SELECT nonexistent_col FROM t",
    "SELECT id, nonexistent_col FROM t WHERE nonexistent_col IS NULL",
    "SELECT max(nonexistent_col), count(nonexistent_col) FROM t",
    "SELECT id FROM t ORDER BY nonexistent_col",
    "SELECT count(*) FROM t",
    "SELECT count() FROM t",
    "SELECT count(1, 2) FROM t",
    "SELECT sum(s_dict) FROM t",
    "SELECT length(i_u8) FROM t",
    "SELECT regex(i_u8, 'a') FROM t",
    "SELECT regex(s_dict, '(') FROM t",
    "SELECT id FROM t WHERE regex(s_dict, '[')",
    "SELECT id FROM t WHERE s_dict LIKE i_u8",
    "SELECT to_year(s_dict) FROM t",
    "SELECT floor(s_dict) FROM t",
    "SELECT -s_dict FROM t",
    "SELECT NOT i_u8 FROM t",
    "SELECT id FROM t WHERE i_u8",
    "SELECT id FROM t WHERE 'abc'",
    "SELECT id FROM t WHERE NULL",
    "SELECT NULL FROM t",
    "SELECT 1 FROM t",
    "SELECT 'x' FROM t",
    "SELECT 1.5e308 * 10 FROM t",
    "SELECT 9223372036854775807 + i_u8 FROM t",
    "SELECT i_u8 / 0 FROM t",
    "SELECT i_u8 % 0 FROM t",
    "SELECT s_dict + 1 FROM t",
    "SELECT i_u8 = 'x' FROM t",
    "SELECT i_u8 + f_half FROM t",
    "SELECT sum(i_u8) + 1, count(0) / 0 FROM t",
    "SELECT sum(sum(i_u8)) FROM t",
    "SELECT id FROM t WHERE sum(i_u8) > 3",
    "SELECT id AS \"weird alias\", id AS id FROM t",
    "SELECT id AS a, i_u8 AS a FROM t",
    "SELECT \"id\", `id`, id FROM t",
    "SELECT * , id FROM t",
    "SELECT t.id FROM t",
    "SELECT t.* FROM t",
    "select ID from T",
    "",
    " ",
    ";",
    "SELECT",
    "\u{0}",
    "SELECT 'unterminated FROM t",
    "SELECT \"unterminated FROM t",
    "SELECT id FROM t -- comment",
    "SELECT id /* c */ FROM t",
    "SELECT id FROM t WHERE s_uni = '🙂'",
    "SELECT id FROM \"t\" WHERE \"s_dict\" = 'it''s'",
    "SELECT ((((((((((id)))))))))) FROM t",
];

fn literal_form(rng: &mut Rng) -> String {
    match rng.below(10) {
        0 => "-5".into(),
        1 => "0007".into(),
        2 => "1.50".into(),
        3 => "1e3".into(),
        4 => "1E-3".into(),
        5 => "18446744073709551616".into(),
        6 => "-9223372036854775808".into(),
        7 => ".5".into(),
        8 => "5.".into(),
        _ => format!("{}", rng.range(-1000, 1000)),
    }
}

fn quote_style(name: &str, rng: &mut Rng) -> String {
    match rng.below(3) {
        0 => sql_ident(name),
        1 => format!("`{}`", name),
        _ => name.to_string(),
    }
}

/// Structural validation of an Ok answer (values are C03-C06's business).
fn validate(sql: &str, q: &QOut, expect_names: Option<&[String]>, limit: Option<u64>, table_rows: usize) -> Option<(String, String)> {
    if q.cols.len() != q.colnames.len() {
        // an empty result may come without materialised columns
        if !(q.cols.is_empty() && q.rows.is_empty()) {
            return Some(("column_count".into(), format!("{} colnames but {} columns", q.colnames.len(), q.cols.len())));
        }
    }
    for (i, (n, _)) in q.cols.iter().enumerate() {
        if q.colnames.get(i) != Some(n) {
            return Some(("column_name_order".into(), format!("column {} is named {:?} but colnames[{}] = {:?}", i, n, i, q.colnames.get(i))));
        }
    }
    if let Some(first) = q.cols.first() {
        for (n, c) in &q.cols {
            if c.len() != first.1.len() {
                return Some(("unequal_column_lengths".into(), format!("column {} has {} cells, column {} has {}", n, c.len(), first.0, first.1.len())));
            }
        }
    }
    if q.has_rows && !q.cols.is_empty() {
        let n = q.cols[0].1.len();
        if q.rows.len() != n {
            return Some(("views_disagree_rowcount".into(), format!("row view has {} rows, column view {}", q.rows.len(), n)));
        }
        for (ri, row) in q.rows.iter().enumerate() {
            if row.len() != q.cols.len() {
                return Some(("views_disagree_width".into(), format!("row {} has {} cells, {} columns", ri, row.len(), q.cols.len())));
            }
            for (ci, cell) in row.iter().enumerate() {
                let other = &q.cols[ci].1[ri];
                // T-SENTINEL: the column view may expose the in-band NULL marker where the row view says NULL
                let same = cell == other
                    || matches!((cell, other), (V::Float(a), V::Float(b)) if a.is_nan() && b.is_nan())
                    || matches!((cell, other), (V::Null, V::Int(i)) if *i == crate::model::I64_NULL)
                    || matches!((cell, other), (V::Null, V::Float(f)) if f.is_nan());
                if !same {
                    return Some(("views_disagree_cell".into(), format!("row {} col {}: row view {} column view {}", ri, ci, cell.short(), other.short())));
                }
            }
        }
    }
    if let Some(l) = limit {
        let n = q.cols.first().map(|c| c.1.len()).unwrap_or(q.rows.len());
        if n as u64 > l {
            return Some(("more_rows_than_limit".into(), format!("{} rows returned with LIMIT {}", n, l)));
        }
    }
    if let Some(names) = expect_names {
        if q.colnames.len() != names.len() {
            return Some(("select_list_length".into(), format!("{} select items but {} result columns ({:?})", names.len(), q.colnames.len(), q.colnames)));
        }
        for (i, n) in names.iter().enumerate() {
            if !n.is_empty() && &q.colnames[i] != n {
                return Some(("alias_not_used".into(), format!("select item {} has alias {:?} but the column is named {:?}", i, n, q.colnames[i])));
            }
        }
    }
    let _ = (sql, table_rows);
    None
}

fn run_strings(id: String, seed: u64, kind: &'static str, n: usize, out: &mut CaseOut, op: &OpCell) {
    let mut rng = Rng::derive(seed, &id, 0);
    let splits = vec![40, 50, 30];
    let gt = make_table("t", &standard_columns(), &splits, &mut rng);
    let mut real = Realisation::partitions(&splits, 2);
    real.flush_after[2] = false;
    let db: Db = realise(&gt.table, &real, op);
    let stats = col_stats(&gt.table);
    let pg = PredGen::new(&stats);
    let case = json!({"kind": kind});
    let mut valid_pool: Vec<String> = Vec::new();
    let judge = |sql: &str, names: Option<&[String]>, limit: Option<u64>, label: &str, out: &mut CaseOut, db: &Db| {
        out.eval(1);
        let r = db.query_opts(sql, false, true);
        match &r {
            Ok(q) => {
                out.count("answers_ok", 1);
                if let Some((mode, detail)) = validate(sql, q, names, limit, 120) {
                    out.fail(Failure::new("envelope", &mode, label, format!("{} :: {}", crate::qcheck::trunc(sql, 300), detail), json!({"sql": sql})));
                } else {
                    out.distinct(format!("ok|{}|cols{}|rows{}", label, q.colnames.len().min(6), if q.rows.is_empty() { "0" } else { "n" }));
                }
            }
            Err(QErr { kind, .. }) => {
                out.count(&format!("errors:{}", kind), 1);
                if *kind != "Canceled" {
                    out.distinct(format!("err|{}|{}", label, kind));
                }
                // Canceled = a worker died; the panic monitor reports the site
            }
        }
        r.is_ok()
    };
    match kind {
        "unsupported" => {
            for sql in UNSUPPORTED {
                let label = format!("construct:{}", sql.split_whitespace().take(4).collect::<Vec<_>>().join("_"));
                let ok = judge(sql, None, None, &crate::qcheck::trunc(&label, 60), out, &db);
                // unknown tables must be an error, unknown columns all NULL
                if sql.contains("nonexistent_table") && ok {
                    out.fail(Failure::new("envelope", "unknown_table_not_an_error", "unknown_table", format!("{} returned a result", sql), json!({"sql": sql})));
                }
                if *sql == "SELECT nonexistent_col FROM t" {
                    if let Ok(q) = db.query_opts(sql, false, true) {
                        if q.cols.first().map(|c| c.1.iter().any(|v| !v.is_null()) || c.1.len() != 120).unwrap_or(true) {
                            out.fail(Failure::new("envelope", "unknown_column_not_null", "unknown_column", format!("{}: expected 120 NULL cells", sql), json!({"sql": sql})));
                        }
                    }
                }
            }
            // unknown columns next to real ones under every LIMIT / OFFSET / WHERE / ORDER BY combination: the envelope must stay
            // rectangular and the unknown column all NULL
            for (sql, limit) in [
                ("SELECT id, no_such_column FROM t LIMIT 2", Some(2u64)),
                ("SELECT no_such_column, id FROM t LIMIT 7 OFFSET 3", Some(7)),
                ("SELECT no_such_column FROM t LIMIT 3", Some(3)),
                ("SELECT no_such_column FROM t LIMIT 3 OFFSET 119", Some(3)),
                ("SELECT id, no_such_column AS x FROM t WHERE id < 50 LIMIT 5", Some(5)),
                ("SELECT id, no_such_column FROM t ORDER BY id DESC LIMIT 4", Some(4)),
                ("SELECT id, no_such_column FROM t ORDER BY id LIMIT 4 OFFSET 118", Some(4)),
                ("SELECT id, no_such_column, s_dict FROM t WHERE id >= 100", None),
                ("SELECT i_u8, COUNT(no_such_column) FROM t LIMIT 3", Some(3)),
            ] {
                judge(sql, None, limit, "construct:unknown_column_with_limit", out, &db);
                if let Ok(q) = db.query_opts(sql, false, true) {
                    if let Some((_, c)) = q.cols.iter().find(|c| c.0 == "no_such_column" || c.0 == "x") {
                        out.eval(1);
                        if c.iter().any(|v| !v.is_null()) {
                            out.fail(Failure::new("envelope", "unknown_column_not_null", "unknown_column", format!("{}: the unknown column has non-NULL cells", sql), json!({"sql": sql})));
                        }
                    }
                }
            }
            out.sample(json!({"unsupported_constructs_tried": UNSUPPORTED.len(), "first": UNSUPPORTED.iter().take(5).collect::<Vec<_>>()}));
        }
        "grammar" => {
            for i in 0..n {
                // a statement from the supported fragment with random nesting, quoting, aliases and literal forms
                let mut q = Q::new("t");
                let mut names: Vec<String> = Vec::new();
                let mut limit = None;
                let sql = if i % 3 == 0 {
                    let (gq, _) = c04_like(&mut rng, &gt.table);
                    q = gq;
                    let mut s = q.sql();
                    // computed aggregates and ORDER BY on an aggregate run a final pass; combine them with LIMIT/OFFSET
                    if rng.chance(0.3) {
                        s = s.replacen(" FROM ", &format!(", SUM({}) / COUNT(1) AS ratio FROM ", quote_style("i_u8", &mut rng)), 1);
                    }
                    if rng.chance(0.3) {
                        s = s.replacen(" FROM ", &format!(", AVG({}) FROM ", quote_style("i_u16", &mut rng)), 1);
                    }
                    if rng.chance(0.5) {
                        s.push_str(&format!(" ORDER BY COUNT(1){}", if rng.chance(0.5) { " DESC" } else { "" }));
                        if !s.contains("COUNT(1)") || !s[..s.find(" FROM ").unwrap_or(0)].contains("COUNT(1)") {
                            s = s.replacen(" FROM ", ", COUNT(1) FROM ", 1);
                        }
                    }
                    if rng.chance(0.7) {
                        let l = *rng.pick(&[1u64, 2, 3, 5, 1000]);
                        limit = Some(l);
                        s.push_str(&format!(" LIMIT {}", l));
                        if rng.chance(0.7) {
                            s.push_str(&format!(" OFFSET {}", rng.pick(&[0u64, 1, 2, 3])));
                        }
                    }
                    s
                } else {
                    let nsel = 1 + rng.below(4);
                    let mut items = Vec::new();
                    for _ in 0..nsel {
                        // now and then a column that exists nowhere (reads as NULL): added after seed C12d, whose all-NULL
                        // column ignored LIMIT/OFFSET in the column view - unknown columns were only ever selected alone
                        let c = if rng.chance(0.12) { "no_such_column".to_string() } else { rng.pick(&pg.cols).clone() };
                        let item = match rng.below(4) {
                            0 => format!("{} + {}", quote_style(&c, &mut rng), literal_form(&mut rng)),
                            1 => format!("({})", quote_style(&c, &mut rng)),
                            _ => quote_style(&c, &mut rng),
                        };
                        if rng.chance(0.4) {
                            let alias = format!("al{}", rng.below(100));
                            items.push(format!("{} AS {}", item, quote_style(&alias, &mut rng)));
                            names.push(alias);
                        } else {
                            items.push(item);
                            names.push(String::new());
                        }
                    }
                    let mut s = format!("SELECT {} FROM {}", items.join(", "), quote_style("t", &mut rng));
                    if rng.chance(0.6) {
                        let (p, _) = pg.tree(rng.below(4), &mut rng);
                        s.push_str(&format!(" WHERE {}", p.sql()));
                    }
                    if rng.chance(0.4) {
                        let oc = rng.pick(&pg.cols).clone();
                        s.push_str(&format!(" ORDER BY {}{}", quote_style(&oc, &mut rng), if rng.chance(0.5) { " DESC" } else { "" }));
                    }
                    if rng.chance(0.5) {
                        let l = *rng.pick(&[0u64, 1, 5, 119, 120, 121, 1000]);
                        limit = Some(l);
                        s.push_str(&format!(" LIMIT {}", l));
                        if rng.chance(0.4) {
                            s.push_str(&format!(" OFFSET {}", rng.pick(&[0u64, 1, 60, 119, 120, 121, 500])));
                        }
                    }
                    s
                };
                let _ = &q;
                let ok = judge(&sql, if names.is_empty() { None } else { Some(&names) }, limit, "grammar", out, &db);
                if ok && valid_pool.len() < 200 {
                    valid_pool.push(sql.clone());
                }
                if i == 0 {
                    out.sample(json!({"generated_statement": sql}));
                }
            }
        }
        _ => {
            // byte-level mutations of valid statements
            let seeds: Vec<String> = vec![
                "SELECT id, s_dict FROM t WHERE i_u8 > 5 ORDER BY id DESC LIMIT 10 OFFSET 2".into(),
                "SELECT i_u8, COUNT(0), SUM(i_off) FROM t WHERE s_pack <> 'x' ORDER BY COUNT(0) DESC LIMIT 5".into(),
                "SELECT \"id\" AS x, (i_u16 / 10) + 1 FROM \"t\" WHERE (s_hex LIKE 'a%') AND (f_half <= 1.5) OR NOT (i_small = -1)".into(),
                "SELECT * FROM t WHERE regex(s_uni, '^é') AND i_bign IS NOT NULL".into(),
            ];
            let alphabet: Vec<char> = " '\"`();,*%_-+/.<>=!0123456789eEaZ\u{e9}\u{1F642}\n\t\\".chars().collect();
            for i in 0..n {
                let base = seeds[i % seeds.len()].clone();
                let mut chars: Vec<char> = base.chars().collect();
                let edits = 1 + rng.below(3);
                for _ in 0..edits {
                    if chars.is_empty() {
                        break;
                    }
                    let pos = rng.below(chars.len());
                    match rng.below(5) {
                        0 => {
                            chars.remove(pos);
                        }
                        1 => {
                            let c = chars[pos];
                            chars.insert(pos, c);
                        }
                        2 => chars[pos] = *rng.pick(&alphabet),
                        3 => chars.insert(pos, *rng.pick(&alphabet)),
                        _ => {
                            // splice with another statement
                            let other: Vec<char> = seeds[rng.below(seeds.len())].chars().collect();
                            let cut = rng.below(other.len());
                            chars.truncate(pos);
                            chars.extend_from_slice(&other[cut..]);
                        }
                    }
                }
                let sql: String = chars.into_iter().collect();
                judge(&sql, None, None, "mutation", out, &db);
                if i == 0 {
                    out.sample(json!({"mutated_statement": sql, "from": base}));
                }
            }
        }
    }
    let _ = case;
}

fn c04_like(rng: &mut Rng, table: &crate::model::LTable) -> (Q, String) {
    // grouped statement over the standard columns
    let mut q = Q::new(&table.name);
    let keys = ["i_u8", "s_dict", "i_small", "s_dictn", "i_u8n"];
    for _ in 0..rng.below(3) {
        q.select.push((E::Col(rng.pick(&keys).to_string()), None));
    }
    let f = *rng.pick(&[crate::sql::AggF::Count, crate::sql::AggF::Sum, crate::sql::AggF::Min, crate::sql::AggF::Max]);
    q.select.push((E::Agg(f, Box::new(E::Col(rng.pick(&["i_u8", "i_off", "i_u16", "f_half"]).to_string()))), if rng.chance(0.3) { Some("agg".into()) } else { None }));
    let _ = c04::KEYS;
    (q, "grouped".into())
}

pub fn run(ctx: &mut Ctx) {
    let id = "unsupported".to_string();
    if ctx.take(&id) {
        let seed = ctx.seed;
        ctx.run(&id, "query-strings", json!({"kind": "unsupported"}), move |out, op| run_strings("unsupported".into(), seed, "unsupported", 0, out, op));
    }
    let rounds = ctx.pick(144u64, 3000);
    let per = ctx.pick(200usize, 300);
    for i in 0..rounds {
        if i >= 48 && ctx.out_of_time() {
            break;
        }
        let kind: &'static str = if i % 2 == 0 { "grammar" } else { "mutation" };
        let id = format!("{}-{}", kind, i);
        if !ctx.take(&id) {
            continue;
        }
        let seed = ctx.seed;
        let idc = id.clone();
        ctx.run(&id, "query-strings", json!({"kind": kind}), move |out, op| run_strings(idc, seed, kind, per, out, op));
    }
}
