//! Standing monitors: panic recorder, per-case deadline with evidence-based hang classification.
use std::panic;
use std::sync::atomic::{AtomicBool, AtomicU64, Ordering};
use std::sync::mpsc;
use std::sync::{Arc, Mutex};
use std::time::{Duration, Instant};

use serde_json::{json, Value as J};

use crate::report::{CaseOut, Failure};

#[derive(Clone, Debug)]
pub struct PanicRec {
    pub thread: String,
    pub file: String,
    pub line: u32,
    pub msg: String,
    pub seq: u64,
    /// fingerprint of the source line at the panic location (survives edits that only move lines). Empty if unreadable.
    pub func: String,
}

/// Root of the source tree under test as it appears in panic locations ("/repo/" unless the driver was pointed at a
/// scratch worktree with LVERIF_REPO, in which case it passes LVERIF_REPO_ROOT to the shard processes).
pub fn repo_root() -> &'static str {
    static ROOT: std::sync::OnceLock<String> = std::sync::OnceLock::new();
    ROOT.get_or_init(|| {
        let mut r = std::env::var("LVERIF_REPO_ROOT").unwrap_or_else(|_| "/repo/".to_string());
        if !r.ends_with('/') {
            r.push('/');
        }
        r
    })
}

impl PanicRec {
    pub fn in_repo(&self) -> bool {
        self.file.starts_with(repo_root())
    }
    /// Identity of the panic site used in signatures: file + fingerprint of the source line (not the line number, which
    /// moves with every unrelated edit above it).
    pub fn site(&self) -> String {
        let f = self.file.trim_start_matches(repo_root());
        if self.func.is_empty() {
            format!("{}:{}", f, self.line)
        } else {
            format!("{}@{}", f, self.func)
        }
    }
    pub fn site_line(&self) -> String {
        format!("{}:{}", self.file.trim_start_matches(repo_root()), self.line)
    }
    /// message with numbers, quoted strings and addresses removed
    pub fn norm_msg(&self) -> String {
        normalise_msg(&self.msg)
    }
}

pub fn normalise_msg(msg: &str) -> String {
    let mut out = String::new();
    let mut in_digits = false;
    let first_line = msg.lines().next().unwrap_or("");
    for c in first_line.chars().take(200) {
        if c.is_ascii_digit() {
            if !in_digits {
                out.push('N');
            }
            in_digits = true;
        } else if c == '`' {
            in_digits = false;
        } else {
            in_digits = false;
            out.push(c);
        }
    }
    out.chars().take(110).collect()
}

static PANICS: Mutex<Vec<PanicRec>> = Mutex::new(Vec::new());
static PANIC_SEQ: AtomicU64 = AtomicU64::new(0);
static VERBOSE: AtomicBool = AtomicBool::new(false);
/// >0 while the case thread legitimately waits for a child process (whose CPU time is not ours)
pub static EXTERNAL_WAITS: std::sync::atomic::AtomicUsize = std::sync::atomic::AtomicUsize::new(0);

pub fn install_panic_hook(verbose: bool) {
    VERBOSE.store(verbose, Ordering::SeqCst);
    panic::set_hook(Box::new(|info| {
        let (file, line) = info
            .location()
            .map(|l| (l.file().to_string(), l.line()))
            .unwrap_or(("?".to_string(), 0));
        let msg = if let Some(s) = info.payload().downcast_ref::<&str>() {
            s.to_string()
        } else if let Some(s) = info.payload().downcast_ref::<String>() {
            s.clone()
        } else {
            "<non-string panic payload>".to_string()
        };
        let thread = std::thread::current().name().unwrap_or("<unnamed>").to_string();
        let func = enclosing_function(&file, line);
        let rec = PanicRec { thread, file, line, msg, seq: PANIC_SEQ.fetch_add(1, Ordering::SeqCst), func };
        if VERBOSE.load(Ordering::SeqCst) {
            eprintln!("[panic] thread={} at {}:{}: {} [site={}]", rec.thread, rec.file, rec.line, rec.msg.lines().next().unwrap_or(""), rec.site());
            if std::env::var("LVERIF_BT").is_ok() {
                eprintln!("{}", std::backtrace::Backtrace::force_capture());
            }
        }
        if let Ok(mut p) = PANICS.lock() {
            if p.len() < 10_000 {
                p.push(rec);
            }
        }
    }));
}

static FUNC_CACHE: Mutex<Vec<((String, u32), String)>> = Mutex::new(Vec::new());

/// Content address of a panic site: FNV-1a of the trimmed source line the panic location points at. It names one call
/// site, does not move when unrelated lines are added above it, and does not depend on optimisation level or inlining.
fn enclosing_function(file: &str, line: u32) -> String {
    if !file.starts_with(repo_root()) {
        return String::new();
    }
    if let Ok(c) = FUNC_CACHE.lock() {
        if let Some(hit) = c.iter().find(|e| e.0 .0 == file && e.0 .1 == line) {
            return hit.1.clone();
        }
    }
    let mut found = String::new();
    if let Ok(text) = std::fs::read_to_string(file) {
        let lines: Vec<&str> = text.lines().collect();
        let idx = line.saturating_sub(1) as usize;
        if idx < lines.len() {
            // a short line (".unwrap();", "}") says little: take the lines above it in until there is some text
            let mut t = String::new();
            let mut k = idx as isize;
            while k >= 0 && idx as isize - k < 3 {
                let part: String = lines[k as usize].split_whitespace().collect::<Vec<_>>().join(" ");
                t = if t.is_empty() { part } else { format!("{} {}", part, t) };
                if t.len() >= 24 {
                    break;
                }
                k -= 1;
            }
            let mut h: u32 = 0x811c9dc5;
            for b in t.bytes() {
                h ^= b as u32;
                h = h.wrapping_mul(0x01000193);
            }
            found = format!("{:08x}", h);
        }
    }
    if let Ok(mut c) = FUNC_CACHE.lock() {
        if c.len() < 2000 {
            c.push(((file.to_string(), line), found.clone()));
        }
    }
    found
}

pub fn take_panics() -> Vec<PanicRec> {
    std::mem::take(&mut *PANICS.lock().unwrap())
}

pub fn peek_panics() -> Vec<PanicRec> {
    PANICS.lock().unwrap().clone()
}

/// Sum of utime+stime (clock ticks) over all threads of this process.
pub fn process_cpu_ticks() -> u64 {
    let mut total = 0u64;
    if let Ok(rd) = std::fs::read_dir("/proc/self/task") {
        for e in rd.flatten() {
            if let Ok(s) = std::fs::read_to_string(e.path().join("stat")) {
                // fields after the closing paren of comm
                if let Some(pos) = s.rfind(')') {
                    let fields: Vec<&str> = s[pos + 1..].split_whitespace().collect();
                    // state is fields[0]; utime = fields[11], stime = fields[12]
                    if fields.len() > 12 {
                        total += fields[11].parse::<u64>().unwrap_or(0) + fields[12].parse::<u64>().unwrap_or(0);
                    }
                }
            }
        }
    }
    total
}

/// Number of threads of this process that are runnable or in uninterruptible (disk) wait right now. A deadlocked or
/// orphaned call has none: everybody sleeps on a futex. A process that is merely starved of CPU or stuck behind slow
/// I/O has some, and must not be mistaken for a hang.
pub fn busy_threads() -> usize {
    let me = std::thread::current().id();
    let _ = me;
    let mut n = 0;
    let own_tid = std::fs::read_link("/proc/thread-self").ok().and_then(|p| p.file_name().map(|s| s.to_string_lossy().to_string()));
    if let Ok(rd) = std::fs::read_dir("/proc/self/task") {
        for e in rd.flatten() {
            if Some(e.file_name().to_string_lossy().to_string()) == own_tid {
                continue; // the monitor thread itself is running while it looks
            }
            if let Ok(s) = std::fs::read_to_string(e.path().join("stat")) {
                if let Some(pos) = s.rfind(')') {
                    let state = s[pos + 1..].split_whitespace().next().unwrap_or("");
                    if state == "R" || state == "D" {
                        n += 1;
                    }
                }
            }
        }
    }
    n
}

pub fn thread_count() -> usize {
    std::fs::read_dir("/proc/self/task").map(|d| d.count()).unwrap_or(0)
}

/// Shared cell in which a running case publishes the API call it is currently blocked in.
#[derive(Clone, Default)]
pub struct OpCell(pub Arc<Mutex<String>>);

/// Bumped whenever the running case starts or finishes a step (a database call, a child process). The wall-clock watchdog
/// measures the time since the last step, not since the start of the case: a long case on a loaded machine keeps stepping,
/// a call that never returns does not.
static STEPS: AtomicU64 = AtomicU64::new(0);

pub fn heartbeat() {
    STEPS.fetch_add(1, Ordering::SeqCst);
}

impl OpCell {
    pub fn set(&self, s: &str) {
        *self.0.lock().unwrap() = s.to_string();
        heartbeat();
    }
    pub fn get(&self) -> String {
        self.0.lock().unwrap().clone()
    }
}

pub enum CaseEnd {
    Done(CaseOut),
    /// the case did not finish: (partial classification failure or inconclusive note)
    Hung(CaseOut),
}

/// Runs one case in its own thread. Returns when the case finished, or when it is classified as hung
/// (no CPU progress while pending) or the generous wall-clock watchdog fired (=> inconclusive).
pub fn run_case<F>(case_id: &str, opclass: &str, watchdog: Duration, case_json: J, f: F) -> CaseEnd
where
    F: FnOnce(&mut CaseOut, &OpCell) + Send + 'static,
{
    let op = OpCell::default();
    let op2 = op.clone();
    let (tx, rx) = mpsc::channel::<CaseOut>();
    let before = take_panics(); // panics of lingering threads of earlier cases are reported with this case
    let handle = std::thread::Builder::new()
        .name(format!("case:{}", case_id))
        .stack_size(16 << 20)
        .spawn(move || {
            let mut out = CaseOut::default();
            let res = panic::catch_unwind(panic::AssertUnwindSafe(|| f(&mut out, &op2)));
            if res.is_err() {
                out.counters.insert("__case_panicked".into(), 1);
            }
            let _ = tx.send(out);
        })
        .expect("spawn case thread");

    let start = Instant::now();
    let mut last_step = (STEPS.load(Ordering::SeqCst), Instant::now());
    let mut last_ticks = process_cpu_ticks();
    let mut idle_samples = 0;
    let mut result: Option<CaseOut> = None;
    let mut hung = false;
    let mut watchdog_fired = false;
    let mut last_op = String::new();
    let mut same_op_secs = 0;
    loop {
        match rx.recv_timeout(Duration::from_millis(1000)) {
            Ok(out) => {
                result = Some(out);
                break;
            }
            Err(mpsc::RecvTimeoutError::Timeout) => {
                let t = process_cpu_ticks();
                if t.saturating_sub(last_ticks) <= 1 && EXTERNAL_WAITS.load(Ordering::SeqCst) == 0 && busy_threads() == 0 {
                    idle_samples += 1;
                } else {
                    idle_samples = 0;
                }
                last_ticks = t;
                // no progress over 8 consecutive seconds while a call is pending
                if idle_samples >= 8 && start.elapsed() > Duration::from_secs(10) {
                    hung = true;
                    break;
                }
                let steps = STEPS.load(Ordering::SeqCst);
                if steps != last_step.0 {
                    last_step = (steps, Instant::now());
                }
                if last_step.1.elapsed() > watchdog {
                    watchdog_fired = true;
                    break;
                }
                // rule (a) early: a database thread has panicked and the case has made no visible progress
                // (same pending call) for 12 s since - typically other workers now spin on state the dead thread left behind
                let cur = op.get();
                if peek_panics().iter().any(|p| p.in_repo()) && !cur.is_empty() {
                    if cur == last_op {
                        same_op_secs += 1;
                    } else {
                        same_op_secs = 0;
                        last_op = cur;
                    }
                    if same_op_secs >= 12 {
                        watchdog_fired = true;
                        break;
                    }
                } else {
                    same_op_secs = 0;
                }
            }
            Err(mpsc::RecvTimeoutError::Disconnected) => break,
        }
    }
    let finished = result.is_some();
    let mut out = result.unwrap_or_default();
    if finished {
        let _ = handle.join();
    }
    let mut panics = before;
    panics.extend(take_panics());
    let caller_panicked = out.counters.remove("__case_panicked").is_some();
    let case_thread = format!("case:{}", case_id);
    // Every panic located in the code under test is a failure. A panic located in the harness itself
    // (oracle bug) is inconclusive, never a violation.
    let mut seen = std::collections::BTreeSet::new();
    for p in &panics {
        let where_ = if p.thread == case_thread { "caller" } else { "db-thread" };
        if p.in_repo() {
            let feat = format!("{}|{}|{}", p.norm_msg(), where_, opclass);
            let key = format!("{}|{}", p.site(), feat);
            if seen.insert(key) {
                out.failures.push(Failure::new(
                    "panic",
                    &format!("panic@{}", p.site()),
                    &feat,
                    format!("thread={} at {} msg={}", p.thread, p.site_line(), p.msg.lines().take(3).collect::<Vec<_>>().join(" / ")),
                    case_json.clone(),
                ));
            }
        } else if p.file.contains("/verif/harness/") || p.file.starts_with("src/") {
            out.inconclusive.push(format!("harness panic at {}:{}: {}", p.file, p.line, p.msg.lines().next().unwrap_or("")));
        } else {
            // third-party crate: attribute to the workload as a panic with its site
            let feat = format!("{}|{}|{}", p.norm_msg(), where_, opclass);
            let key = format!("{}|{}", p.site(), feat);
            if seen.insert(key) {
                out.failures.push(Failure::new(
                    "panic",
                    &format!("panic@{}", short_third_party(&p.file, p.line)),
                    &feat,
                    format!("thread={} msg={}", p.thread, p.msg.lines().take(3).collect::<Vec<_>>().join(" / ")),
                    case_json.clone(),
                ));
            }
        }
    }
    if caller_panicked && panics.is_empty() {
        out.inconclusive.push("case thread panicked but no panic record".into());
    }
    if !finished {
        let blocked = op.get();
        let dead = panics.iter().filter(|p| p.in_repo()).map(|p| p.site()).next();
        if hung && blocked.is_empty() && dead.is_none() {
            // nothing of the database was being called: the stall is in the harness or the machine (slow I/O), not a verdict
            out.inconclusive.push("case made no CPU progress for 8s outside any database call (harness or I/O stall)".into());
        } else if hung {
            out.failures.push(Failure::new(
                "hang",
                &dead.clone().unwrap_or_else(|| "no-progress".into()),
                &format!("blocked:{}", blocked_class(&blocked)),
                format!("call '{}' did not return; process CPU time stopped advancing for 8s; panics={:?}", blocked, panics.iter().map(|p| p.site()).collect::<Vec<_>>()),
                case_json.clone(),
            ));
        } else if watchdog_fired {
            match dead {
                // rule (a): a database-owned thread the pending call depends on has died (its panic is on record)
                Some(site) => out.failures.push(Failure::new(
                    "hang",
                    &site,
                    &format!("blocked:{}", blocked_class(&blocked)),
                    format!("call '{}' did not return within {:?} (CPU still busy: other threads spin) after a database thread panicked; panics={:?}", blocked, watchdog, panics.iter().map(|p| p.site()).collect::<Vec<_>>()),
                    case_json.clone(),
                )),
                None => out.inconclusive.push(format!("watchdog fired after {:?} in '{}' with CPU still advancing", watchdog, blocked)),
            }
        } else {
            out.inconclusive.push("case thread vanished".into());
        }
        return CaseEnd::Hung(out);
    }
    CaseEnd::Done(out)
}

fn short_third_party(file: &str, line: u32) -> String {
    // /root/.cargo/registry/src/index-xxx/crate-1.2.3/src/x.rs -> crate-1.2.3/src/x.rs
    if let Some(pos) = file.find("/registry/src/") {
        let rest = &file[pos + 14..];
        if let Some(p2) = rest.find('/') {
            return format!("{}:{}", &rest[p2 + 1..], line);
        }
    }
    format!("{}:{}", file, line)
}

fn blocked_class(op: &str) -> String {
    op.split(|c: char| c == ' ' || c == '(' || c == ':').next().unwrap_or("").to_string()
}

pub fn panics_json(ps: &[PanicRec]) -> J {
    json!(ps.iter().map(|p| json!({"thread": p.thread, "site": p.site(), "line": p.site_line(), "msg": p.msg.lines().next().unwrap_or("")})).collect::<Vec<_>>())
}
