//! History runner shared by C07, C08, C13, C18 (and the workload side of C09/C10): a database instance plus the
//! logical model of every acknowledged request, with whole-table comparison and catalogue checks.
use std::collections::{BTreeMap, BTreeSet};

use serde_json::{json, Value as J};

use crate::drive::{Db, DbCfg, QErr, QOut, Via};
use crate::guard::OpCell;
use crate::model::{cell_matches, join_type, Batch, LTable, V};

#[derive(Clone, Debug)]
pub enum Op {
    Ingest(Vec<Batch>),
    Flush,
    Evict,
    Restart { quiescent: bool },
}

impl Op {
    pub fn name(&self) -> &'static str {
        match self {
            Op::Ingest(_) => "ingest",
            Op::Flush => "flush",
            Op::Evict => "evict",
            Op::Restart { .. } => "restart",
        }
    }
    pub fn to_json(&self) -> J {
        match self {
            Op::Ingest(bs) => json!({"ingest": bs.iter().map(|b| b.to_json(6)).collect::<Vec<_>>()}),
            Op::Flush => json!("flush"),
            Op::Evict => json!("evict"),
            Op::Restart { quiescent } => json!({ "restart": if *quiescent { "quiescent" } else { "immediate" } }),
        }
    }
    pub fn letter(&self) -> String {
        match self {
            Op::Ingest(bs) => format!("I[{}]", bs.iter().map(|b| b.table.clone()).collect::<Vec<_>>().join("+")),
            Op::Flush => "F".into(),
            Op::Evict => "E".into(),
            Op::Restart { quiescent } => if *quiescent { "Rq".into() } else { "R".into() },
        }
    }
}

pub struct World {
    pub db: Db,
    pub model: BTreeMap<String, LTable>,
    pub via: Via,
    pub evicted_bytes: u64,
}

#[derive(Debug, Clone)]
pub struct Mismatch {
    pub table: String,
    pub mode: String,
    pub detail: String,
}

/// Compare a `SELECT *` answer with the logical table: same set of column names (each once), same row count,
/// every cell equal under T-COERCE.
pub fn compare_table(model: &LTable, q: &Result<QOut, QErr>) -> Option<Mismatch> {
    let t = model.name.clone();
    let mk = |mode: &str, detail: String| Some(Mismatch { table: t.clone(), mode: mode.to_string(), detail });
    let q = match q {
        Ok(q) => q,
        Err(e) => return mk(&format!("error:{}", e.kind), format!("SELECT * failed: {}", e.msg)),
    };
    let mut got_names: Vec<String> = q.cols.iter().map(|c| c.0.clone()).collect();
    let want: Vec<String> = model.cols.keys().cloned().collect();
    let dup = {
        let s: BTreeSet<&String> = got_names.iter().collect();
        s.len() != got_names.len()
    };
    got_names.sort();
    if dup {
        return mk("column_duplicated", format!("SELECT * lists a column twice: {:?}", got_names));
    }
    if model.len == 0 && q.cols.is_empty() {
        return None;
    }
    if got_names != want {
        let missing: Vec<_> = want.iter().filter(|n| !got_names.contains(n)).take(4).collect();
        let extra: Vec<_> = got_names.iter().filter(|n| !want.contains(n)).take(4).collect();
        return mk(
            if !missing.is_empty() { "column_missing" } else { "column_extra" },
            format!("columns differ: missing {:?} extra {:?}", missing, extra),
        );
    }
    for (name, got) in &q.cols {
        let supplied = &model.cols[name];
        if got.len() != supplied.len() {
            let mode = if got.len() < supplied.len() { "rows_missing" } else { "rows_extra" };
            return mk(mode, format!("column {}: {} rows returned, {} acknowledged", name, got.len(), supplied.len()));
        }
        let ct = join_type(supplied);
        for (i, (s, g)) in supplied.iter().zip(got.iter()).enumerate() {
            if !cell_matches(s, g, ct) {
                let mode = match (s, g) {
                    (V::Null, _) => "null->value",
                    (_, V::Null) => "value->null",
                    _ => "changed",
                };
                // same multiset in another order?
                let mut a: Vec<&V> = supplied.iter().collect();
                let mut b: Vec<&V> = got.iter().collect();
                a.sort_by(|x, y| x.canon_cmp(y));
                b.sort_by(|x, y| x.canon_cmp(y));
                let mode = if a == b { "reordered" } else { mode };
                return mk(mode, format!("column {} row {}: acknowledged {} returned {} ({} rows)", name, i, s.short(), g.short(), supplied.len()));
            }
        }
    }
    None
}

impl World {
    pub fn open(cfg: &DbCfg, via: Via, op: &OpCell) -> World {
        World { db: Db::open(cfg, op), model: BTreeMap::new(), via, evicted_bytes: 0 }
    }

    pub fn apply(&mut self, op: &Op) {
        match op {
            Op::Ingest(bs) => {
                self.db.ingest(bs, self.via);
                for b in bs {
                    self.model.entry(b.table.clone()).or_insert_with(|| LTable::new(&b.table)).append(b);
                }
            }
            Op::Flush => self.db.flush(),
            Op::Evict => self.evicted_bytes += self.db.evict() as u64,
            Op::Restart { quiescent } => self.db.restart(*quiescent),
        }
    }

    pub fn select_all(&self, table: &str) -> Result<QOut, QErr> {
        self.db.query_opts(&format!("SELECT * FROM \"{}\"", table), false, false)
    }

    /// All user tables against the model.
    pub fn check_tables(&self) -> Vec<Mismatch> {
        let mut v = Vec::new();
        for (name, t) in &self.model {
            if let Some(m) = compare_table(t, &self.select_all(name)) {
                v.push(m);
            }
        }
        v
    }

    /// Catalogue: `_meta_tables` lists every table (user tables and their `_meta_columns_` companions) once;
    /// `_meta_columns_<t>` lists every column of t once.
    pub fn check_catalogue(&self) -> Vec<Mismatch> {
        let mut v = Vec::new();
        let q = self.db.query_opts("SELECT name FROM _meta_tables", false, false);
        match &q {
            Ok(q) => {
                let names: Vec<String> = q.col("name").map(|c| c.iter().filter_map(|x| if let V::Str(s) = x { Some(s.clone()) } else { None }).collect()).unwrap_or_default();
                for t in self.model.keys() {
                    let n = names.iter().filter(|x| *x == t).count();
                    if n != 1 {
                        v.push(Mismatch { table: "_meta_tables".into(), mode: if n == 0 { "table_not_listed".into() } else { "table_listed_twice".into() }, detail: format!("table {} listed {} times in _meta_tables ({} entries)", t, n, names.len()) });
                    }
                }
                let set: BTreeSet<&String> = names.iter().collect();
                if set.len() != names.len() {
                    let mut dups: Vec<&String> = names.iter().filter(|n| names.iter().filter(|m| m == n).count() > 1).collect();
                    dups.sort();
                    dups.dedup();
                    v.push(Mismatch { table: "_meta_tables".into(), mode: "table_listed_twice".into(), detail: format!("duplicate entries in _meta_tables: {:?}", dups.iter().take(4).collect::<Vec<_>>()) });
                }
            }
            Err(e) => {
                if !self.model.is_empty() {
                    v.push(Mismatch { table: "_meta_tables".into(), mode: format!("error:{}", e.kind), detail: e.msg.clone() });
                }
            }
        }
        for (t, lt) in &self.model {
            let q = self.db.query_opts(&format!("SELECT column_name FROM \"_meta_columns_{}\"", t), false, false);
            match &q {
                Ok(q) => {
                    let names: Vec<String> = q.col("column_name").map(|c| c.iter().filter_map(|x| if let V::Str(s) = x { Some(s.clone()) } else { None }).collect()).unwrap_or_default();
                    for c in lt.cols.keys() {
                        let n = names.iter().filter(|x| *x == c).count();
                        if n != 1 {
                            v.push(Mismatch { table: format!("_meta_columns_{}", t), mode: if n == 0 { "column_not_listed".into() } else { "column_listed_twice".into() }, detail: format!("column {} of {} listed {} times ({:?})", c, t, n, names.iter().take(8).collect::<Vec<_>>()) });
                            break;
                        }
                    }
                    let extra: Vec<&String> = names.iter().filter(|n| !lt.cols.contains_key(*n)).collect();
                    if !extra.is_empty() {
                        v.push(Mismatch { table: format!("_meta_columns_{}", t), mode: "column_extra".into(), detail: format!("never ingested columns listed: {:?}", extra.iter().take(4).collect::<Vec<_>>()) });
                    }
                }
                Err(e) => v.push(Mismatch { table: format!("_meta_columns_{}", t), mode: format!("error:{}", e.kind), detail: e.msg.clone() }),
            }
        }
        v
    }
}

pub fn history_string(ops: &[Op]) -> String {
    ops.iter().map(|o| o.letter()).collect::<Vec<_>>().join(" ")
}
