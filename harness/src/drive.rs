//! Drives the real database through its public API; converts between the logical model and the API types.
use std::collections::HashMap;
use std::path::{Path, PathBuf};
use std::sync::atomic::{AtomicU64, Ordering};
use std::sync::Arc;
use std::time::{Duration, Instant};

use futures::executor::block_on;
use locustdb::{BasicTypeColumn, LocustDB, Options, QueryError, QueryOutput, Value as RawVal};
use locustdb_serialization::api::AnyVal;
use locustdb_serialization::event_buffer::{ColumnBuffer, ColumnData, EventBuffer, TableBuffer};
use locustdb_serialization::wal_segment_capnp;
use serde_json::{json, Value as J};

use crate::guard::OpCell;
use crate::model::{Batch, ColRepr, V};

#[derive(Clone, Debug)]
pub struct DbCfg {
    pub threads: usize,
    pub read_threads: usize,
    pub disk: bool,
    pub mem_lz4: bool,
    pub mem_size_limit_tables: usize,
    pub max_wal_size_bytes: u64,
    pub max_wal_files: usize,
    pub max_partition_size_bytes: u64,
    pub partition_combine_factor: u64,
    pub batch_size: usize,
    pub wal_flush_compaction_threads: usize,
    pub io_threads: usize,
    pub metrics: bool,
}

impl Default for DbCfg {
    fn default() -> DbCfg {
        DbCfg {
            threads: 2,
            read_threads: 2,
            disk: false,
            mem_lz4: true,
            mem_size_limit_tables: 8 << 30,
            max_wal_size_bytes: 64 << 20,
            max_wal_files: 1000,
            max_partition_size_bytes: 8 << 20,
            partition_combine_factor: 4,
            batch_size: 1024,
            wal_flush_compaction_threads: 1,
            io_threads: 1,
            metrics: false,
        }
    }
}

impl DbCfg {
    pub fn to_json(&self) -> J {
        json!({
            "threads": self.threads, "disk": self.disk, "mem_lz4": self.mem_lz4,
            "mem_size_limit_tables": self.mem_size_limit_tables,
            "max_wal_size_bytes": self.max_wal_size_bytes, "max_wal_files": self.max_wal_files,
            "max_partition_size_bytes": self.max_partition_size_bytes,
            "partition_combine_factor": self.partition_combine_factor, "batch_size": self.batch_size,
            "wal_flush_compaction_threads": self.wal_flush_compaction_threads, "io_threads": self.io_threads,
            "metrics": self.metrics,
        })
    }
    pub fn options(&self, path: Option<&Path>) -> Options {
        Options {
            threads: self.threads,
            read_threads: self.read_threads,
            db_path: path.map(|p| p.to_path_buf()),
            mem_size_limit_tables: self.mem_size_limit_tables,
            mem_lz4: self.mem_lz4,
            readahead: 256 << 20,
            max_wal_size_bytes: self.max_wal_size_bytes,
            max_wal_files: self.max_wal_files,
            max_partition_size_bytes: self.max_partition_size_bytes,
            partition_combine_factor: self.partition_combine_factor,
            batch_size: self.batch_size,
            max_partition_length: 1024 * 1024,
            wal_flush_compaction_threads: self.wal_flush_compaction_threads,
            io_threads: self.io_threads,
            metrics_interval: 15,
            metrics_table_name: if self.metrics { Some("_metrics".to_string()) } else { None },
        }
    }
}

static DIR_SEQ: AtomicU64 = AtomicU64::new(0);

/// Root for scratch database directories: inside the harness target dir (git-ignored), never /tmp.
pub fn scratch_root() -> PathBuf {
    let root = std::env::var("LVERIF_SCRATCH").unwrap_or_else(|_| "/verif/harness/target/run".to_string());
    PathBuf::from(root)
}

pub fn fresh_dir(tag: &str) -> PathBuf {
    let n = DIR_SEQ.fetch_add(1, Ordering::SeqCst);
    let p = scratch_root().join(format!("{}-{}-{}", tag, std::process::id(), n));
    let _ = std::fs::remove_dir_all(&p);
    std::fs::create_dir_all(&p).expect("create scratch dir");
    p
}

/// How a batch travels to the database.
#[derive(Clone, Copy, Debug, PartialEq, Eq, Hash)]
pub enum Via {
    /// `TableBuffer::new` + `ingest_efficient` (native batch API)
    Struct,
    /// capnp message built from the wire schema, decoded with `EventBuffer::deserialize`
    Wire,
    /// `TableBuffer::push_row_and_timestamp` row by row
    RowApi,
    /// struct -> EventBuffer::serialize -> deserialize (client library path)
    SerDe,
}

impl Via {
    pub fn name(&self) -> &'static str {
        match self {
            Via::Struct => "struct",
            Via::Wire => "wire",
            Via::RowApi => "rowapi",
            Via::SerDe => "serde",
        }
    }
}

fn anyval(v: &V) -> AnyVal {
    match v {
        V::Null => AnyVal::Null,
        V::Int(i) => AnyVal::Int(*i),
        V::Float(f) => AnyVal::Float(*f),
        V::Str(s) => AnyVal::Str(s.clone()),
    }
}

pub fn column_data(r: &ColRepr) -> ColumnData {
    match r {
        ColRepr::Dense(x) => ColumnData::Dense(x.clone()),
        ColRepr::Sparse(x) => ColumnData::Sparse(x.clone()),
        ColRepr::I64(x) => ColumnData::I64(x.clone()),
        ColRepr::SparseI64(x) => ColumnData::SparseI64(x.clone()),
        ColRepr::Str(x) => ColumnData::String(x.clone()),
        ColRepr::Mixed(x) => ColumnData::Mixed(x.iter().map(anyval).collect()),
        ColRepr::Empty => ColumnData::Empty,
    }
}

/// Can `TableBuffer::new` carry this batch with the right row count? (it infers the row count from the
/// longest `data.len()`, which for sparse columns is the number of entries, not rows)
pub fn struct_compatible(b: &Batch) -> bool {
    let mut any_full = false;
    for (_, r) in &b.cols {
        let l = column_data(r).len();
        match r {
            ColRepr::Empty => {}
            _ => {
                if l != b.rows {
                    return false;
                }
                any_full = true;
            }
        }
    }
    any_full || b.rows == 0
}

/// Wire encoding with an explicit row count, written against the capnp schema (not via EventBuffer::serialize).
pub fn wire_encode(batches: &[Batch]) -> Vec<u8> {
    let mut builder = capnp::message::Builder::new_default();
    {
        let tsl = builder.init_root::<wal_segment_capnp::table_segment_list::Builder>();
        let mut data = tsl.init_data(batches.len() as u32);
        for (i, b) in batches.iter().enumerate() {
            let mut tb = data.reborrow().get(i as u32);
            tb.set_len(b.rows as u64);
            tb.set_name(&b.table[..]);
            let mut cols = tb.reborrow().init_columns(b.cols.len() as u32);
            for (j, (name, repr)) in b.cols.iter().enumerate() {
                let mut cb = cols.reborrow().get(j as u32);
                cb.set_name(&name[..]);
                match repr {
                    ColRepr::Dense(x) => cb.get_data().set_f64(&x[..]).unwrap(),
                    ColRepr::Sparse(x) => {
                        let mut sb = cb.get_data().init_sparse_f64();
                        let (idx, vals): (Vec<u64>, Vec<f64>) = x.iter().cloned().unzip();
                        sb.reborrow().set_indices(&idx[..]).unwrap();
                        sb.reborrow().set_values(&vals[..]).unwrap();
                    }
                    ColRepr::I64(x) => cb.get_data().set_i64(&x[..]).unwrap(),
                    ColRepr::SparseI64(x) => {
                        let mut sb = cb.get_data().init_sparse_i64();
                        let (idx, vals): (Vec<u64>, Vec<i64>) = x.iter().cloned().unzip();
                        sb.reborrow().set_indices(&idx[..]).unwrap();
                        sb.reborrow().set_values(&vals[..]).unwrap();
                    }
                    ColRepr::Str(x) => cb.get_data().set_string(&x[..]).unwrap(),
                    ColRepr::Empty => cb.get_data().set_empty(()),
                    ColRepr::Mixed(x) => {
                        let mut mb = cb.get_data().init_mixed(x.len() as u32);
                        for (k, v) in x.iter().enumerate() {
                            let mut vb = mb.reborrow().get(k as u32).init_value();
                            match v {
                                V::Int(i) => vb.set_i64(*i),
                                V::Float(f) => vb.set_f64(*f),
                                V::Str(s) => vb.set_string(&s[..]),
                                V::Null => vb.set_null(()),
                            }
                        }
                    }
                }
            }
        }
    }
    let mut buf = Vec::new();
    capnp::serialize_packed::write_message(&mut buf, &builder).unwrap();
    buf
}

/// Build the EventBuffer for a multi-table request. Panics (harness error) if `via` cannot carry a batch:
/// generators must check `struct_compatible` / `rowapi_compatible` first.
pub fn event_buffer(batches: &[Batch], via: Via) -> EventBuffer {
    match via {
        Via::Struct | Via::SerDe => {
            let mut tables = HashMap::new();
            for b in batches {
                assert!(struct_compatible(b), "batch not struct-compatible");
                let cols: HashMap<String, ColumnBuffer> = b
                    .cols
                    .iter()
                    .map(|(n, r)| (n.clone(), ColumnBuffer { data: column_data(r) }))
                    .collect();
                tables.insert(b.table.clone(), TableBuffer::new(cols));
            }
            let eb = EventBuffer { tables };
            if via == Via::SerDe {
                EventBuffer::deserialize(&eb.serialize()).expect("deserialize own serialization")
            } else {
                eb
            }
        }
        Via::Wire => EventBuffer::deserialize(&wire_encode(batches)).expect("deserialize wire message"),
        Via::RowApi => {
            let mut tables: HashMap<String, TableBuffer> = HashMap::new();
            for b in batches {
                let tb = tables.entry(b.table.clone()).or_default();
                let cols: Vec<(String, Vec<V>)> = b.cols.iter().map(|(n, r)| (n.clone(), r.logical(b.rows))).collect();
                for row in 0..b.rows {
                    let r: Vec<(String, AnyVal)> = cols.iter().map(|(n, vals)| (n.clone(), anyval(&vals[row]))).collect();
                    tb.push_row_and_timestamp(r);
                }
            }
            EventBuffer { tables }
        }
    }
}

/// The row API accepts, per column: floats (ints are promoted), ints, or dense strings; it always adds a
/// `timestamp` column unless the row has one.
pub fn rowapi_compatible(b: &Batch) -> bool {
    if b.rows == 0 || !b.cols.iter().any(|(n, _)| n == "timestamp") {
        return false;
    }
    for (_, r) in &b.cols {
        let vals = r.logical(b.rows);
        let has_str = vals.iter().any(|v| matches!(v, V::Str(_)));
        let has_num = vals.iter().any(|v| matches!(v, V::Int(_) | V::Float(_)));
        let has_null = vals.iter().any(|v| v.is_null());
        if has_str && (has_num || has_null) {
            return false;
        }
    }
    true
}

#[derive(Clone, Debug)]
pub struct QOut {
    pub colnames: Vec<String>,
    pub rows: Vec<Vec<V>>,
    pub cols: Vec<(String, Vec<V>)>,
    pub col_kinds: Vec<&'static str>,
    pub plans: Vec<String>,
    pub files_opened: u64,
    pub disk_read_bytes: u64,
    pub rows_scanned: u64,
    pub has_rows: bool,
}

#[derive(Clone, Debug, PartialEq)]
pub struct QErr {
    pub kind: &'static str,
    pub msg: String,
}

pub fn rawval(v: &RawVal) -> V {
    match v {
        RawVal::Int(i) => V::Int(*i),
        RawVal::Float(f) => V::Float(f.0),
        RawVal::Str(s) => V::Str(s.clone()),
        RawVal::Null => V::Null,
    }
}

pub fn basic_col(c: &BasicTypeColumn) -> (Vec<V>, &'static str) {
    match c {
        BasicTypeColumn::Int(x) => (x.iter().map(|i| V::Int(*i)).collect(), "int"),
        BasicTypeColumn::Float(x) => (x.iter().map(|f| V::Float(*f)).collect(), "float"),
        BasicTypeColumn::String(x) => (x.iter().map(|s| V::Str(s.clone())).collect(), "string"),
        BasicTypeColumn::Null(n) => (vec![V::Null; *n], "null"),
        BasicTypeColumn::Mixed(x) => (x.iter().map(rawval).collect(), "mixed"),
    }
}

pub fn qerr(e: &QueryError) -> QErr {
    let kind = match e {
        QueryError::SytaxErrorCharsRemaining(_) => "ParseError",
        QueryError::SyntaxErrorBytesRemaining(_) => "ParseError",
        QueryError::ParseError(_) => "ParseError",
        QueryError::FatalError(..) => "FatalError",
        QueryError::NotImplemented(_) => "NotImplemented",
        QueryError::TypeError(_) => "TypeError",
        QueryError::Overflow => "Overflow",
        QueryError::Canceled { .. } => "Canceled",
    };
    let msg = format!("{}", e);
    QErr { kind, msg: msg.chars().take(300).collect() }
}

pub fn qout(o: &QueryOutput) -> QOut {
    let mut cols = Vec::new();
    let mut kinds = Vec::new();
    for (n, c) in &o.columns {
        let (vals, k) = basic_col(c);
        cols.push((n.clone(), vals));
        kinds.push(k);
    }
    let rows = o
        .rows
        .as_ref()
        .map(|rs| rs.iter().map(|r| r.iter().map(rawval).collect()).collect())
        .unwrap_or_default();
    let mut plans: Vec<String> = o.query_plans.keys().cloned().collect();
    plans.sort();
    QOut {
        colnames: o.colnames.clone(),
        rows,
        cols,
        col_kinds: kinds,
        plans,
        files_opened: o.stats.files_opened,
        disk_read_bytes: o.stats.disk_read_bytes,
        rows_scanned: o.stats.rows_scanned,
        has_rows: o.rows.is_some(),
    }
}

impl QOut {
    /// Result as rows, taken from the column view (so both views get exercised by different oracles).
    pub fn rows_from_cols(&self) -> Vec<Vec<V>> {
        let n = self.cols.first().map(|c| c.1.len()).unwrap_or(0);
        (0..n).map(|i| self.cols.iter().map(|c| c.1[i].clone()).collect()).collect()
    }
    pub fn col(&self, name: &str) -> Option<&Vec<V>> {
        self.cols.iter().find(|c| c.0 == name).map(|c| &c.1)
    }
}

pub struct Db {
    pub db: Option<Arc<LocustDB>>,
    pub cfg: DbCfg,
    pub path: Option<PathBuf>,
    pub op: OpCell,
    owns_dir: bool,
}

impl Db {
    pub fn open(cfg: &DbCfg, op: &OpCell) -> Db {
        let path = if cfg.disk { Some(fresh_dir("db")) } else { None };
        Db::open_at(cfg, path, true, op)
    }

    pub fn open_at(cfg: &DbCfg, path: Option<PathBuf>, owns_dir: bool, op: &OpCell) -> Db {
        op.set("open");
        let opts = cfg.options(path.as_deref());
        let db = LocustDB::new(&opts);
        op.set("");
        Db { db: Some(Arc::new(db)), cfg: cfg.clone(), path, op: op.clone(), owns_dir }
    }

    pub fn handle(&self) -> &Arc<LocustDB> {
        self.db.as_ref().expect("db open")
    }

    pub fn ingest(&self, batches: &[Batch], via: Via) {
        let eb = event_buffer(batches, via);
        self.ingest_buffer(eb);
    }

    pub fn ingest_buffer(&self, eb: EventBuffer) {
        self.op.set("ingest");
        poll_to_completion(self.handle().ingest_efficient(eb));
        self.op.set("");
    }

    pub fn query(&self, sql: &str) -> Result<QOut, QErr> {
        self.query_opts(sql, false, true)
    }

    pub fn query_opts(&self, sql: &str, explain: bool, rowformat: bool) -> Result<QOut, QErr> {
        self.op.set(&format!("query {}", &sql.chars().take(200).collect::<String>()));
        let r = block_on(self.handle().run_query(sql, explain, rowformat, vec![]));
        self.op.set("");
        match r {
            Ok(o) => Ok(qout(&o)),
            Err(e) => {
                let e = qerr(&e);
                if e.kind == "Canceled" {
                    // a worker died (its panic is on record): restore the worker pool through the public API
                    self.handle().recover();
                }
                Err(e)
            }
        }
    }

    pub fn flush(&self) {
        self.op.set("force_flush");
        self.handle().force_flush();
        self.op.set("");
    }

    pub fn evict(&self) -> usize {
        self.op.set("evict_cache");
        let n = self.handle().evict_cache();
        self.op.set("");
        n
    }

    /// Drop the instance. With `quiescent`, wait until no instance is alive any more (all background
    /// threads of the old instance have exited), bounded by 10 s.
    pub fn close(&mut self, quiescent: bool) -> bool {
        self.op.set("close");
        let token = self.db.as_ref().map(|d| d.verif_liveness());
        if let Some(db) = self.db.take() {
            drop(db);
        }
        let mut ok = true;
        if quiescent {
            if let Some(token) = token {
                // wait until every thread of *this* instance has exited (bounded; background threads poll every second)
                let start = Instant::now();
                while token.strong_count() > 0 {
                    // an instance whose flush thread died (its panic is on record) never goes away: do not wait for it
                    let zombie = crate::guard::peek_panics().iter().any(|p| p.in_repo());
                    if start.elapsed() > Duration::from_secs(if zombie { 3 } else { 20 }) {
                        ok = false;
                        break;
                    }
                    std::thread::sleep(Duration::from_millis(5));
                }
            }
        }
        self.op.set("");
        ok
    }

    pub fn restart(&mut self, quiescent: bool) {
        self.close(quiescent);
        self.op.set("open");
        let opts = self.cfg.options(self.path.as_deref());
        self.db = Some(Arc::new(LocustDB::new(&opts)));
        self.op.set("");
    }

    pub fn codec_signatures(&self, table: &str) -> Vec<(String, Vec<String>)> {
        self.op.set("mem_tree");
        let r = block_on(self.handle().mem_tree(3, Some(table.to_string())));
        self.op.set("");
        let mut out = Vec::new();
        if let Ok(tables) = r {
            for t in tables {
                for (name, col) in t.columns {
                    let mut sigs: Vec<String> = col.encodings.keys().cloned().collect();
                    sigs.sort();
                    out.push((name, sigs));
                }
            }
        }
        out.sort();
        out
    }

    pub fn table_stats(&self) -> Vec<(String, usize, usize, usize)> {
        self.op.set("table_stats");
        let r = block_on(self.handle().table_stats());
        self.op.set("");
        r.map(|v| v.into_iter().map(|t| (t.name, t.rows, t.batches, t.buffer_length)).collect()).unwrap_or_default()
    }
}

/// Directories of closed databases. Background threads of a dropped instance may still be flushing into the
/// directory for a moment, so it is only removed once it has been idle for a few seconds.
static GRAVEYARD: std::sync::Mutex<Vec<(Instant, PathBuf)>> = std::sync::Mutex::new(Vec::new());

fn bury(path: PathBuf) {
    let mut g = GRAVEYARD.lock().unwrap();
    g.push((Instant::now(), path));
    let mut keep = Vec::new();
    for (t, p) in g.drain(..) {
        if t.elapsed() > Duration::from_secs(6) {
            let _ = std::fs::remove_dir_all(&p);
        } else {
            keep.push((t, p));
        }
    }
    *g = keep;
}

impl Drop for Db {
    fn drop(&mut self) {
        self.db.take();
        if self.owns_dir {
            if let Some(p) = self.path.take() {
                bury(p);
            }
        }
    }
}

/// Drives a future that completes without ever suspending (ingest_efficient blocks internally and itself uses
/// `futures::executor::block_on`, which must not be nested inside another futures executor). Falls back to a
/// helper thread with `block_on` if the future does suspend.
pub fn poll_to_completion<F: std::future::Future>(fut: F) -> F::Output {
    use std::task::{Context, Poll, RawWaker, RawWakerVTable, Waker};
    fn noop_raw() -> RawWaker {
        fn clone(_: *const ()) -> RawWaker {
            noop_raw()
        }
        fn noop(_: *const ()) {}
        static VTABLE: RawWakerVTable = RawWakerVTable::new(clone, noop, noop, noop);
        RawWaker::new(std::ptr::null(), &VTABLE)
    }
    let waker = unsafe { Waker::from_raw(noop_raw()) };
    let mut cx = Context::from_waker(&waker);
    let mut fut = Box::pin(fut);
    loop {
        match fut.as_mut().poll(&mut cx) {
            Poll::Ready(v) => return v,
            Poll::Pending => std::thread::sleep(Duration::from_millis(1)),
        }
    }
}

pub fn wait_no_instances(max: Duration) -> bool {
    wait_instances_at_most(0, max)
}

pub fn wait_instances_at_most(n: usize, max: Duration) -> bool {
    let start = Instant::now();
    while locustdb::verif::live_instances() > n {
        if start.elapsed() > max {
            return false;
        }
        std::thread::sleep(Duration::from_millis(5));
    }
    true
}

/// Recursive listing of a directory: relative paths of files, sorted.
pub fn list_files(root: &Path) -> Vec<String> {
    fn rec(dir: &Path, root: &Path, out: &mut Vec<String>) {
        if let Ok(rd) = std::fs::read_dir(dir) {
            for e in rd.flatten() {
                let p = e.path();
                if p.is_dir() {
                    rec(&p, root, out);
                } else {
                    out.push(p.strip_prefix(root).unwrap().to_string_lossy().to_string());
                }
            }
        }
    }
    let mut out = Vec::new();
    rec(root, root, &mut out);
    out.sort();
    out
}

pub fn copy_dir(src: &Path, dst: &Path) {
    let _ = std::fs::create_dir_all(dst);
    if let Ok(rd) = std::fs::read_dir(src) {
        for e in rd.flatten() {
            let p = e.path();
            let d = dst.join(e.file_name());
            if p.is_dir() {
                copy_dir(&p, &d);
            } else {
                let _ = std::fs::copy(&p, &d);
            }
        }
    }
}
