//! Small deterministic PRNG (splitmix64 seeded xorshift64*). No dependency on the code under test.

#[derive(Clone, Debug)]
pub struct Rng {
    s: u64,
}

pub fn splitmix(mut x: u64) -> u64 {
    x = x.wrapping_add(0x9E3779B97F4A7C15);
    let mut z = x;
    z = (z ^ (z >> 30)).wrapping_mul(0xBF58476D1CE4E5B9);
    z = (z ^ (z >> 27)).wrapping_mul(0x94D049BB133111EB);
    z ^ (z >> 31)
}

impl Rng {
    pub fn new(seed: u64) -> Rng {
        let mut s = splitmix(seed ^ 0xA076_1D64_78BD_642F);
        if s == 0 {
            s = 0x2545F4914F6CDD1D;
        }
        Rng { s }
    }

    /// Derive an independent stream from this seed and a label.
    pub fn derive(seed: u64, label: &str, idx: u64) -> Rng {
        let mut h = splitmix(seed);
        for b in label.bytes() {
            h = splitmix(h ^ b as u64);
        }
        Rng::new(splitmix(h ^ idx.wrapping_mul(0x9E3779B97F4A7C15)))
    }

    pub fn next_u64(&mut self) -> u64 {
        let mut x = self.s;
        x ^= x >> 12;
        x ^= x << 25;
        x ^= x >> 27;
        self.s = x;
        x.wrapping_mul(0x2545F4914F6CDD1D)
    }

    pub fn below(&mut self, n: usize) -> usize {
        if n == 0 {
            0
        } else {
            (self.next_u64() % n as u64) as usize
        }
    }

    pub fn range(&mut self, lo: i64, hi_incl: i64) -> i64 {
        if hi_incl <= lo {
            return lo;
        }
        let span = (hi_incl as i128 - lo as i128 + 1) as u128;
        let r = (self.next_u64() as u128) % span;
        (lo as i128 + r as i128) as i64
    }

    pub fn chance(&mut self, p: f64) -> bool {
        (self.next_u64() >> 11) as f64 / ((1u64 << 53) as f64) < p
    }

    pub fn unit(&mut self) -> f64 {
        (self.next_u64() >> 11) as f64 / ((1u64 << 53) as f64)
    }

    pub fn pick<'a, T>(&mut self, xs: &'a [T]) -> &'a T {
        &xs[self.below(xs.len())]
    }

    pub fn shuffle<T>(&mut self, xs: &mut [T]) {
        for i in (1..xs.len()).rev() {
            let j = self.below(i + 1);
            xs.swap(i, j);
        }
    }
}
