//! Differential query oracle shared by C02..C06: reference evaluation of a statement on the logical table,
//! comparison with the engine's answer under the tolerances of DESIGN.md section 2, capability probe.
use std::cmp::Ordering;
use std::collections::{BTreeMap, HashMap};

use serde_json::{json, Value as J};

use crate::drive::{Db, QErr, QOut};
use crate::model::{canon_cmp_rows, LTable, LType, V};
use crate::report::{CaseOut, Failure};
use crate::sql::{self, order_cmp_keys, AggF, AggState, EvalCtx, KeyV, RefErr, E, Q};
use crate::tables::type_tag;

/// What the reference says about a statement on a table.
#[derive(Clone, Debug)]
pub enum RefAnswer {
    /// rows in a fully determined order (no ORDER BY: ingestion order)
    Sequence { rows: Vec<Vec<V>>, tol: Vec<f64> },
    /// grouped result without ORDER BY: a multiset of rows
    Multiset { rows: Vec<AggRow> },
    /// ORDER BY: `all` is every candidate row with its key tuple, sorted; the window is [offset, offset+limit)
    Ordered { all: Vec<OrdRow>, desc: Vec<bool>, offset: usize, limit: usize },
    Overflow,
    IllTyped(String),
    /// int/float comparison beyond 2^53 decided differently by exact and lossy rule: no claim
    Ambiguous,
}

#[derive(Clone, Debug)]
pub struct AggRow {
    pub cells: Vec<AggCell>,
}

#[derive(Clone, Debug)]
pub enum AggCell {
    Exact(V),
    /// any of these values is acceptable (T-AVG), floats within tol
    OneOf(Vec<V>, f64),
    /// exact value, or the whole query may fail with Overflow (transient overflow of partial sums)
    ExactOrOverflow(V),
}

#[derive(Clone, Debug)]
pub struct OrdRow {
    pub keys: Vec<V>,
    pub cells: Vec<AggCell>,
    /// identity of the row: row number for plain queries, group key for grouped queries
    pub ident: Vec<V>,
}

fn agg_cell(f: AggF, st: &AggState) -> Result<AggCell, RefErr> {
    Ok(match f {
        AggF::Count => AggCell::Exact(V::Int(st.count)),
        AggF::Sum => {
            if st.count == 0 {
                AggCell::Exact(V::Null)
            } else if st.any_float {
                AggCell::OneOf(vec![V::Float(st.sum_f)], 1e-9 * st.abs_f + 1e-300)
            } else if st.sum_i > i64::MAX as i128 || st.sum_i < i64::MIN as i128 {
                return Err(RefErr::Overflow);
            } else if st.sum_may_overflow {
                AggCell::ExactOrOverflow(V::Int(st.sum_i as i64))
            } else {
                AggCell::Exact(V::Int(st.sum_i as i64))
            }
        }
        AggF::Min => AggCell::Exact(st.min.clone().unwrap_or(V::Null)),
        AggF::Max => AggCell::Exact(st.max.clone().unwrap_or(V::Null)),
        AggF::Avg => {
            if st.count == 0 {
                AggCell::Exact(V::Null)
            } else if st.any_float {
                AggCell::OneOf(vec![V::Float(st.sum_f / st.count as f64)], 1e-9 * st.abs_f / st.count as f64 + 1e-300)
            } else {
                if st.sum_i > i64::MAX as i128 || st.sum_i < i64::MIN as i128 {
                    return Err(RefErr::Overflow);
                }
                let trunc = (st.sum_i / st.count as i128) as i64;
                let exact = st.sum_i as f64 / st.count as f64;
                let c = AggCell::OneOf(vec![V::Int(trunc), V::Float(exact)], 1e-9 * exact.abs() + 1e-12);
                if st.sum_may_overflow {
                    // a wrong number is never acceptable, an Overflow error is
                    return Ok(AggCell::OneOf(vec![V::Int(trunc), V::Float(exact), V::Str("__overflow_ok__".into())], 1e-9 * exact.abs() + 1e-12));
                }
                c
            }
        }
    })
}

pub fn cell_ok(want: &AggCell, got: &V) -> bool {
    match want {
        AggCell::Exact(v) | AggCell::ExactOrOverflow(v) => sql::cell_eq(v, got, 0.0),
        AggCell::OneOf(vs, tol) => vs.iter().any(|v| sql::cell_eq(v, got, *tol)),
    }
}

fn overflow_acceptable(c: &AggCell) -> bool {
    match c {
        AggCell::ExactOrOverflow(_) => true,
        AggCell::OneOf(vs, _) => vs.iter().any(|v| matches!(v, V::Str(s) if s == "__overflow_ok__")),
        _ => false,
    }
}

/// Reference evaluation of a statement.
pub fn reference(q: &Q, table: &LTable) -> RefAnswer {
    let ctx = EvalCtx::new(table);
    let r = reference_inner(q, table, &ctx);
    if ctx.ambiguous.get() {
        return RefAnswer::Ambiguous;
    }
    match r {
        Ok(a) => a,
        Err(RefErr::Overflow) => RefAnswer::Overflow,
        Err(RefErr::IllTyped(s)) => RefAnswer::IllTyped(s),
    }
}

fn reference_inner(q: &Q, table: &LTable, ctx: &EvalCtx) -> Result<RefAnswer, RefErr> {
    let rows = sql::ref_filter(table, q.filter.as_ref(), ctx)?;
    let select: Vec<E> = if q.star {
        table.cols.keys().map(|c| E::Col(c.clone())).collect()
    } else {
        q.select.iter().map(|s| s.0.clone()).collect()
    };
    let limit = q.limit.map(|l| l as usize).unwrap_or(usize::MAX);
    let offset = q.offset.map(|o| o as usize).unwrap_or(0);
    let desc: Vec<bool> = q.order_by.iter().map(|o| o.1).collect();

    if !q.is_agg() {
        // T-OVF: an overflow at any sub-expression of any filtered row fails the query
        let mut out_rows = Vec::with_capacity(rows.len());
        for &r in &rows {
            let mut cells = Vec::with_capacity(select.len());
            for e in &select {
                cells.push(ctx.eval(e, r)?.to_v());
            }
            out_rows.push(cells);
        }
        if q.order_by.is_empty() {
            let rows: Vec<Vec<V>> = out_rows.into_iter().skip(offset).take(limit).collect();
            let tol = vec![0.0; select.len()];
            return Ok(RefAnswer::Sequence { rows, tol });
        }
        let mut all = Vec::with_capacity(rows.len());
        for (i, &r) in rows.iter().enumerate() {
            let mut keys = Vec::new();
            for (e, _) in &q.order_by {
                keys.push(ctx.eval(e, r)?.to_v());
            }
            all.push(OrdRow { keys, cells: out_rows[i].iter().cloned().map(AggCell::Exact).collect(), ident: vec![V::Int(r as i64)] });
        }
        all.sort_by(|a, b| order_cmp_keys(&a.keys, &b.keys, &desc));
        return Ok(RefAnswer::Ordered { all, desc, offset, limit });
    }

    // grouped query: group keys = select items without aggregate; every aggregate item is Agg(f, e)
    let mut key_exprs = Vec::new();
    let mut aggs: Vec<(AggF, E)> = Vec::new();
    enum Src {
        Key(usize),
        Agg(usize),
    }
    let mut src = Vec::new();
    for e in &select {
        match e {
            E::Agg(f, inner) => {
                src.push(Src::Agg(aggs.len()));
                aggs.push((*f, (**inner).clone()));
            }
            e if e.has_agg() => return Err(RefErr::IllTyped("expression over aggregates not modelled".into())),
            e => {
                src.push(Src::Key(key_exprs.len()));
                key_exprs.push(e.clone());
            }
        }
    }
    let groups = sql::ref_group(ctx, &rows, &key_exprs, &aggs)?;
    let mut out = Vec::new();
    for (key, states) in &groups {
        let mut cells = Vec::new();
        for s in &src {
            cells.push(match s {
                Src::Key(i) => AggCell::Exact(key[*i].clone()),
                Src::Agg(i) => agg_cell(aggs[*i].0, &states[*i])?,
            });
        }
        out.push((key.clone(), cells));
    }
    if q.order_by.is_empty() {
        if q.limit.is_some() || q.offset.is_some() {
            return Err(RefErr::IllTyped("LIMIT on unordered grouped result is not determined".into()));
        }
        return Ok(RefAnswer::Multiset { rows: out.into_iter().map(|(_, cells)| AggRow { cells }).collect() });
    }
    // ORDER BY over select items (matched structurally)
    let mut all = Vec::new();
    for (key, cells) in out {
        let mut keys = Vec::new();
        for (oe, _) in &q.order_by {
            let pos = select.iter().position(|s| s == oe).ok_or_else(|| RefErr::IllTyped("ORDER BY expression not in select list".into()))?;
            let v = match &cells[pos] {
                AggCell::Exact(v) | AggCell::ExactOrOverflow(v) => v.clone(),
                AggCell::OneOf(..) => return Err(RefErr::IllTyped("ORDER BY on tolerance-valued aggregate".into())),
            };
            keys.push(v);
        }
        all.push(OrdRow { keys, cells, ident: key });
    }
    all.sort_by(|a, b| order_cmp_keys(&a.keys, &b.keys, &desc));
    Ok(RefAnswer::Ordered { all, desc, offset, limit })
}

#[derive(Debug, Clone, PartialEq)]
pub enum Verdict {
    Agree,
    /// reference makes no claim (ill-typed, ambiguous)
    NoClaim(String),
    Disagree { mode: String, detail: String },
}

fn rows_of(got: &QOut) -> Vec<Vec<V>> {
    // prefer the column view: it is the one both HTTP and embedded clients read; C12 checks view agreement
    if !got.cols.is_empty() {
        got.rows_from_cols()
    } else {
        got.rows.clone()
    }
}

/// Compare the engine's answer with the reference.
pub fn compare(q: &Q, table: &LTable, refa: &RefAnswer, got: &Result<QOut, QErr>) -> Verdict {
    match (refa, got) {
        (RefAnswer::IllTyped(s), _) => Verdict::NoClaim(format!("ill-typed: {}", s)),
        (RefAnswer::Ambiguous, _) => Verdict::NoClaim("int/float comparison beyond 2^53".into()),
        (RefAnswer::Overflow, Err(e)) if e.kind == "Overflow" => Verdict::Agree,
        (RefAnswer::Overflow, Ok(g)) => Verdict::Disagree {
            mode: "ok_but_overflow".into(),
            detail: format!("reference: some row overflows i64 or divides by zero; engine returned {} rows, first {:?}", rows_of(g).len(), rows_of(g).first().map(|r| r.iter().map(|v| v.short()).collect::<Vec<_>>())),
        },
        (_, Err(e)) => {
            // an Overflow error is acceptable when a partial sum may overflow although the total fits
            if e.kind == "Overflow" {
                let ok = match refa {
                    RefAnswer::Multiset { rows } => rows.iter().any(|r| r.cells.iter().any(overflow_acceptable)),
                    RefAnswer::Ordered { all, .. } => all.iter().any(|r| r.cells.iter().any(overflow_acceptable)),
                    _ => false,
                };
                if ok {
                    return Verdict::Agree;
                }
            }
            // An error *value* is not a wrong answer: TypeError / NotImplemented / FatalError on this realisation
            // make no claim (counted by kind). A lost answer (Canceled) is reported by the panic monitor with its site.
            Verdict::NoClaim(format!("error:{}", e.kind))
        }
        (RefAnswer::Sequence { rows, tol }, Ok(g)) => {
            let got_rows = rows_of(g);
            if got_rows.len() != rows.len() {
                // distinguish missing / extra using the multiset
                let mode = if got_rows.len() < rows.len() { "missing" } else { "extra" };
                return Verdict::Disagree { mode: mode.into(), detail: format!("{} rows returned, reference has {}", got_rows.len(), rows.len()) };
            }
            for (i, (w, g)) in rows.iter().zip(got_rows.iter()).enumerate() {
                if w.len() != g.len() {
                    return Verdict::Disagree { mode: "columns".into(), detail: format!("row {} has {} cells, expected {}", i, g.len(), w.len()) };
                }
                for (c, (wc, gc)) in w.iter().zip(g.iter()).enumerate() {
                    if !sql::cell_eq(wc, gc, tol[c]) {
                        // same multiset but different order?
                        let mut a = rows.clone();
                        let mut b = got_rows.clone();
                        a.sort_by(|x, y| canon_cmp_rows(x, y));
                        b.sort_by(|x, y| canon_cmp_rows(x, y));
                        let mode = if a == b { "reordered" } else { "changed" };
                        return Verdict::Disagree {
                            mode: mode.into(),
                            detail: format!("row {} col {}: reference {} engine {} (of {} rows)", i, c, wc.short(), gc.short(), rows.len()),
                        };
                    }
                }
            }
            let _ = (q, table);
            Verdict::Agree
        }
        (RefAnswer::Multiset { rows }, Ok(g)) => {
            let got_rows = rows_of(g);
            // match each engine row to an unused reference row (greedy on key cells, exact cells first)
            let mut used = vec![false; rows.len()];
            let mut unmatched_got = Vec::new();
            for gr in &got_rows {
                let mut found = None;
                for (i, wr) in rows.iter().enumerate() {
                    if used[i] || wr.cells.len() != gr.len() {
                        continue;
                    }
                    if wr.cells.iter().zip(gr.iter()).all(|(w, g)| cell_ok(w, g)) {
                        found = Some(i);
                        break;
                    }
                }
                match found {
                    Some(i) => used[i] = true,
                    None => unmatched_got.push(gr.clone()),
                }
            }
            let unmatched_ref: Vec<&AggRow> = rows.iter().zip(used.iter()).filter(|(_, u)| !**u).map(|(r, _)| r).collect();
            if unmatched_got.is_empty() && unmatched_ref.is_empty() {
                return Verdict::Agree;
            }
            let mode = if got_rows.len() < rows.len() {
                "missing_group"
            } else if got_rows.len() > rows.len() {
                "extra_group"
            } else {
                "changed_group"
            };
            Verdict::Disagree {
                mode: mode.into(),
                detail: format!(
                    "{} groups returned, reference has {}; unmatched engine rows (first 2): {:?}; unmatched reference rows (first 2): {:?}",
                    got_rows.len(),
                    rows.len(),
                    unmatched_got.iter().take(2).map(|r| r.iter().map(|v| v.short()).collect::<Vec<_>>()).collect::<Vec<_>>(),
                    unmatched_ref.iter().take(2).map(|r| format!("{:?}", r.cells)).collect::<Vec<_>>()
                ),
            }
        }
        (RefAnswer::Ordered { all, desc, offset, limit }, Ok(g)) => {
            let got_rows = rows_of(g);
            let expect_len = all.len().saturating_sub(*offset).min(*limit);
            if got_rows.len() != expect_len {
                return Verdict::Disagree {
                    mode: if got_rows.len() < expect_len { "missing".into() } else { "extra".into() },
                    detail: format!("{} rows returned, expected min(limit, max(0, N - offset)) = {} (N={}, offset={}, limit={})", got_rows.len(), expect_len, all.len(), offset, limit),
                };
            }
            // candidates by key tuple: rows of the reference that tie on all keys
            let mut by_key: BTreeMap<Vec<KeyV>, Vec<usize>> = BTreeMap::new();
            for (i, r) in all.iter().enumerate() {
                by_key.entry(r.keys.iter().map(KeyV::from).collect()).or_default().push(i);
            }
            let mut used = vec![false; all.len()];
            for (pos, gr) in got_rows.iter().enumerate() {
                let want_key = &all[offset + pos].keys;
                let cands = &by_key[&want_key.iter().map(KeyV::from).collect::<Vec<_>>()];
                // the engine row must be one of the (unused) reference rows carrying exactly this key
                let mut found = None;
                for &ci in cands {
                    if used[ci] || all[ci].cells.len() != gr.len() {
                        continue;
                    }
                    if all[ci].cells.iter().zip(gr.iter()).all(|(w, g)| cell_ok(w, g)) {
                        found = Some(ci);
                        break;
                    }
                }
                match found {
                    Some(ci) => used[ci] = true,
                    None => {
                        // is it a row of the table at all (wrong position) or not (changed)?
                        let anywhere = all.iter().enumerate().any(|(i, r)| !used[i] && r.cells.len() == gr.len() && r.cells.iter().zip(gr.iter()).all(|(w, g)| cell_ok(w, g)));
                        let dup = all.iter().enumerate().any(|(i, r)| used[i] && r.cells.len() == gr.len() && r.cells.iter().zip(gr.iter()).all(|(w, g)| cell_ok(w, g)));
                        let mode = if anywhere { "misordered" } else if dup { "duplicated" } else { "changed" };
                        return Verdict::Disagree {
                            mode: mode.into(),
                            detail: format!(
                                "position {} (offset {}): expected a row with key {:?}, engine returned {:?}; desc={:?} N={}",
                                pos, offset, want_key.iter().map(|v| v.short()).collect::<Vec<_>>(), gr.iter().map(|v| v.short()).collect::<Vec<_>>(), desc, all.len()
                            ),
                        };
                    }
                }
            }
            Verdict::Agree
        }
        (RefAnswer::Overflow, Err(e)) => Verdict::NoClaim(format!("error:{}", e.kind)),
    }
}

/// Capability probe: decides once per statement *shape* whether the engine supports it at all, by running it
/// against the canonical realisation (one partition, memory only, all columns dense and non-null).
pub struct Probe {
    pub canon: LTable,
    pub db: Db,
    pub cache: HashMap<String, bool>,
    pub supported_shapes: u64,
    pub unsupported_shapes: u64,
    pub unsupported_samples: Vec<String>,
}

pub fn q_shape(q: &Q, types: &dyn Fn(&str) -> &'static str) -> String {
    let sel = if q.star { "*".to_string() } else { q.select.iter().map(|s| s.0.shape(types)).collect::<Vec<_>>().join(",") };
    format!(
        "SELECT {} WHERE {} ORDER {} {}{}",
        sel,
        q.filter.as_ref().map(|f| f.shape(types)).unwrap_or_default(),
        q.order_by.iter().map(|o| format!("{}{}", o.0.shape(types), if o.1 { "v" } else { "^" })).collect::<Vec<_>>().join(","),
        if q.limit.is_some() { "L" } else { "" },
        if q.offset.is_some() { "O" } else { "" }
    )
}

impl Probe {
    pub fn new(canon: LTable, db: Db) -> Probe {
        Probe { canon, db, cache: HashMap::new(), supported_shapes: 0, unsupported_shapes: 0, unsupported_samples: vec![] }
    }

    pub fn types<'a>(&'a self) -> impl Fn(&str) -> &'static str + 'a {
        move |c: &str| type_tag(self.canon.col_type(c))
    }

    /// Some(true) supported, Some(false) outside the fragment; a supported shape's canonical answer is itself
    /// checked against the reference (failure pushed to `out`).
    pub fn supported(&mut self, q: &Q, out: &mut CaseOut, oracle: &str, case: &J) -> bool {
        self.supported_diag(q, out, oracle, case, &|_, _, _, _| None)
    }

    pub fn supported_diag(
        &mut self,
        q: &Q,
        out: &mut CaseOut,
        oracle: &str,
        case: &J,
        diagnose: &dyn Fn(&Q, &str, &Result<QOut, QErr>, &LTable) -> Option<String>,
    ) -> bool {
        let shape = {
            let t = self.types();
            q_shape(q, &t)
        };
        if let Some(s) = self.cache.get(&shape) {
            return *s;
        }
        let mut cq = q.clone();
        cq.table = self.canon.name.clone();
        let got = self.db.query(&cq.sql());
        let unsupported = matches!(&got, Err(e) if e.kind == "NotImplemented" || e.kind == "TypeError" || e.kind == "ParseError");
        if unsupported {
            self.unsupported_shapes += 1;
            if self.unsupported_samples.len() < 5 {
                self.unsupported_samples.push(format!("{} -> {}", cq.sql(), got.as_ref().err().map(|e| e.msg.clone()).unwrap_or_default()));
            }
        } else {
            self.supported_shapes += 1;
            let refa = reference(&cq, &self.canon);
            out.eval(1);
            if let Verdict::Disagree { mode, detail } = compare(&cq, &self.canon, &refa, &got) {
                let canon = &self.canon;
                let cdb = &self.db;
                let (mq, mmode, mdetail, _) = shrink(&cq, &mode, &detail, &mut |c: &Q| {
                    let got = cdb.query(&c.sql());
                    if matches!(&got, Err(e) if e.kind != "Overflow") {
                        return None;
                    }
                    match compare(c, canon, &reference(c, canon), &got) {
                        Verdict::Disagree { mode, detail } => Some((mode, detail)),
                        _ => None,
                    }
                });
                let ann = annotate(canon);
                let mut mshape = q_shape(&mq, &|c: &str| ann.get(c).copied().unwrap_or("none"));
                if let Some(d) = diagnose(&mq, &mmode, &cdb.query(&mq.sql()), canon) {
                    mshape = format!("diag:{}", d);
                }
                out.fail(Failure::new(
                    oracle,
                    &trunc(&mshape, 160),
                    &format!("canonical|{}", mmode),
                    format!("canonical realisation, minimal: {} :: {} || original: {}", mq.sql(), mdetail, trunc(&cq.sql(), 300)),
                    json!({"sql": cq.sql(), "minimal_sql": mq.sql(), "case": case}),
                ));
            }
        }
        self.cache.insert(shape, !unsupported);
        !unsupported
    }
}

pub fn trunc(s: &str, n: usize) -> String {
    if s.len() <= n {
        s.to_string()
    } else {
        let mut end = n;
        while !s.is_char_boundary(end) {
            end -= 1;
        }
        format!("{}~", &s[..end])
    }
}

/// Run one statement against a realised table and judge it. Returns the verdict (already recorded in `out`).
#[allow(clippy::too_many_arguments)]
pub fn check(
    q: &Q,
    table: &LTable,
    db: &Db,
    probe: &mut Probe,
    out: &mut CaseOut,
    oracle: &str,
    features: &str,
    case: &J,
) -> Option<Verdict> {
    check_diag(q, table, db, probe, out, oracle, features, case, &|_, _, _, _| None)
}

/// Like `check`, with a diagnosis hook: given the minimal failing statement, its failure mode and the engine's
/// answer to it, the hook may name the root cause (used as the signature instead of the raw shape).
#[allow(clippy::too_many_arguments)]
pub fn check_diag(
    q: &Q,
    table: &LTable,
    db: &Db,
    probe: &mut Probe,
    out: &mut CaseOut,
    oracle: &str,
    features: &str,
    case: &J,
    diagnose: &dyn Fn(&Q, &str, &Result<QOut, QErr>, &LTable) -> Option<String>,
) -> Option<Verdict> {
    if !probe.supported_diag(q, out, oracle, case, diagnose) {
        out.count("unsupported_shape_queries", 1);
        return None;
    }
    let refa = reference(q, table);
    let got = db.query(&q.sql());
    out.eval(1);
    let v = compare(q, table, &refa, &got);
    match &v {
        Verdict::Agree => {
            out.count("agree", 1);
            if let Ok(g) = &got {
                if g.disk_read_bytes > 0 {
                    out.count("cold_queries", 1);
                }
            }
        }
        Verdict::NoClaim(why) => {
            out.count("no_claim", 1);
            out.count(&format!("no_claim:{}", trunc(why, 24)), 1);
        }
        Verdict::Disagree { mode, detail } => {
            // shrink the statement to a minimal one that still disagrees, then derive the signature from it
            let (mq, mmode, mdetail, steps) = shrink(q, mode, detail, &mut |c: &Q| {
                if !probe.supported_diag(c, out, oracle, case, diagnose) {
                    return None;
                }
                let refa = reference(c, table);
                let got = db.query(&c.sql());
                match compare(c, table, &refa, &got) {
                    Verdict::Disagree { mode, detail } => Some((mode, detail)),
                    _ => None,
                }
            });
            let ann = annotate(table);
            let mut shape = q_shape(&mq, &|c: &str| ann.get(c).copied().unwrap_or("none"));
            let mgot = db.query(&mq.sql());
            if let Some(d) = diagnose(&mq, &mmode, &mgot, table) {
                shape = format!("diag:{}", d);
            }
            out.count("shrink_steps", steps);
            out.fail(Failure::new(
                oracle,
                &trunc(&shape, 160),
                &format!("{}|{}", features, mmode),
                format!("minimal: {} :: {} || original: {} :: {}", mq.sql(), mdetail, trunc(&q.sql(), 300), trunc(detail, 200)),
                json!({"sql": q.sql(), "minimal_sql": mq.sql(), "case": case}),
            ));
        }
    }
    Some(v)
}

/// Column annotations of the real table: logical type + `?` (has NULLs) / `~` (NULL for a whole run of >= 8
/// consecutive rows, i.e. likely absent from a partition) ; `null` if it has no value at all.
pub fn annotate(table: &LTable) -> HashMap<String, &'static str> {
    let mut m = HashMap::new();
    for (name, vals) in &table.cols {
        let ty = table.col_type(name);
        let nulls = vals.iter().filter(|v| v.is_null()).count();
        let mut run = 0;
        let mut maxrun = 0;
        for v in vals {
            if v.is_null() {
                run += 1;
                maxrun = maxrun.max(run);
            } else {
                run = 0;
            }
        }
        // generated tables name columns that are withheld from whole batches `*_abs`
        let absent = name.ends_with("_abs") && nulls > 0 || maxrun >= 64;
        let _ = maxrun;
        let tag: &'static str = match (ty, nulls > 0, absent) {
            (LType::Null, _, _) => "null",
            (LType::Int, false, _) => "int",
            (LType::Int, true, false) => "int?",
            (LType::Int, true, true) => "int~",
            (LType::Float, false, _) => "float",
            (LType::Float, true, false) => "float?",
            (LType::Float, true, true) => "float~",
            (LType::Str, false, _) => "str",
            (LType::Str, true, false) => "str?",
            (LType::Str, true, true) => "str~",
        };
        m.insert(name.clone(), tag);
    }
    m
}

fn sub_exprs(e: &E) -> Vec<E> {
    match e {
        E::Bin(_, a, b) => vec![(**a).clone(), (**b).clone()],
        E::Not(a) | E::Neg(a) | E::IsNull(a) | E::IsNotNull(a) | E::Length(a) => vec![(**a).clone()],
        _ => vec![],
    }
}

fn is_boolean(e: &E) -> bool {
    match e {
        E::Bin(op, _, _) => op.is_cmp() || matches!(op, crate::sql::Op::And | crate::sql::Op::Or),
        E::Not(_) | E::IsNull(_) | E::IsNotNull(_) | E::Like(..) | E::Regex(..) => true,
        _ => false,
    }
}

/// Greedy delta debugging over the statement: filter subtrees, select items, order keys, limit/offset.
fn shrink(q: &Q, mode: &str, detail: &str, eval: &mut dyn FnMut(&Q) -> Option<(String, String)>) -> (Q, String, String, u64) {
    let mut cur = q.clone();
    let mut cur_mode = mode.to_string();
    let mut cur_detail = detail.to_string();
    let mut budget = 60;
    let mut steps = 0;
    loop {
        let mut cands: Vec<Q> = Vec::new();
        if let Some(f) = &cur.filter {
            let mut c = cur.clone();
            c.filter = None;
            cands.push(c);
            for sub in sub_exprs(f) {
                if is_boolean(&sub) {
                    let mut c = cur.clone();
                    c.filter = Some(sub);
                    cands.push(c);
                }
            }
            // one level deeper: replace a child of the root by its own children
            if let E::Bin(op, a, b) = f {
                for sa in sub_exprs(a) {
                    if is_boolean(&sa) {
                        let mut c = cur.clone();
                        c.filter = Some(E::Bin(*op, Box::new(sa), b.clone()));
                        cands.push(c);
                    }
                }
                for sb in sub_exprs(b) {
                    if is_boolean(&sb) {
                        let mut c = cur.clone();
                        c.filter = Some(E::Bin(*op, a.clone(), Box::new(sb)));
                        cands.push(c);
                    }
                }
            }
        }
        if !cur.order_by.is_empty() {
            for i in 0..cur.order_by.len() {
                let mut c = cur.clone();
                c.order_by.remove(i);
                if c.order_by.is_empty() && (c.limit.is_some() || c.offset.is_some()) && c.is_agg() {
                    c.limit = None;
                    c.offset = None;
                }
                cands.push(c);
            }
        }
        if cur.offset.is_some() {
            let mut c = cur.clone();
            c.offset = None;
            cands.push(c);
        }
        if cur.limit.is_some() && !(cur.is_agg() && cur.order_by.is_empty()) {
            let mut c = cur.clone();
            c.limit = None;
            cands.push(c);
        }
        if cur.select.len() > 1 {
            for i in 0..cur.select.len() {
                // never drop an item that ORDER BY refers to in a grouped query
                if cur.is_agg() && cur.order_by.iter().any(|o| o.0 == cur.select[i].0) {
                    continue;
                }
                if cur.select[i].0 == E::Col("id".into()) {
                    continue;
                }
                let mut c = cur.clone();
                c.select.remove(i);
                cands.push(c);
            }
        }
        for i in 0..cur.select.len() {
            let subs = match &cur.select[i].0 {
                E::Agg(..) => vec![],
                e => sub_exprs(e),
            };
            for sub in subs {
                if cur.is_agg() && cur.order_by.iter().any(|o| o.0 == cur.select[i].0) {
                    continue;
                }
                let mut c = cur.clone();
                c.select[i].0 = sub;
                cands.push(c);
            }
        }
        let mut progressed = false;
        for c in cands {
            if budget == 0 {
                break;
            }
            budget -= 1;
            if let Some((mode, detail)) = eval(&c) {
                cur = c;
                cur_mode = mode;
                cur_detail = detail;
                progressed = true;
                steps += 1;
                break;
            }
        }
        if !progressed || budget == 0 {
            break;
        }
    }
    (cur, cur_mode, cur_detail, steps)
}

pub fn ltype_of(table: &LTable, c: &str) -> LType {
    table.col_type(c)
}

pub fn dummy_ordering() -> Ordering {
    Ordering::Equal
}
