//! Logical tables for the query-level properties and their physical realisations.
use serde_json::{json, Value as J};

use crate::drive::{Db, DbCfg, Via};
use crate::gen;
use crate::guard::OpCell;
use crate::model::{Batch, ColRepr, LTable, LType, V};
use crate::rng::Rng;

#[derive(Clone, Debug)]
pub struct ColDef {
    pub name: String,
    pub kind: &'static str, // int | float | str
    pub class: &'static str,
    /// probability of NULL per cell
    pub null_p: f64,
    /// column is only supplied in batches whose index satisfies `batch % absent_mod != 0` (0 = always supplied)
    pub absent_mod: usize,
}

pub fn coldef(name: &str, kind: &'static str, class: &'static str, null_p: f64) -> ColDef {
    ColDef { name: name.to_string(), kind, class, null_p, absent_mod: 0 }
}

/// The standard column family used by C02..C06: one column per encoding the engine can choose.
pub fn standard_columns() -> Vec<ColDef> {
    let mut v = vec![
        coldef("i_u8", "int", "u8", 0.0),
        coldef("i_u8n", "int", "u8", 0.25),
        coldef("i_off", "int", "u8_off", 0.0),
        coldef("i_offn", "int", "u8_off", 0.25),
        coldef("i_neg", "int", "u8_neg", 0.0),
        coldef("i_u16", "int", "u16", 0.0),
        coldef("i_u16n", "int", "u16_off", 0.2),
        coldef("i_u32", "int", "u32", 0.0),
        coldef("i_big", "int", "i64_full", 0.0),
        coldef("i_bign", "int", "i64_full", 0.3),
        coldef("i_mono", "int", "mono", 0.0),
        coldef("i_small", "int", "small_mixed_sign", 0.1),
        coldef("f_half", "float", "f32_exact", 0.0),
        coldef("f_halfn", "float", "f32_exact", 0.25),
        coldef("f_int", "float", "int_valued", 0.0),
        coldef("f_mix", "float", "mixed_special", 0.1),
        coldef("s_dict", "str", "short_lowcard", 0.0),
        coldef("s_dictn", "str", "short_lowcard", 0.25),
        coldef("s_pack", "str", "short_highcard", 0.0),
        coldef("s_packn", "str", "short_highcard", 0.2),
        coldef("s_hex", "str", "lhex_long", 0.0),
        coldef("s_uni", "str", "unicode", 0.1),
        coldef("s_num", "str", "numerals", 0.0),
        coldef("s_emp", "str", "with_empty", 0.1),
    ];
    let mut a = coldef("i_abs", "int", "u8", 0.1);
    a.absent_mod = 2;
    v.push(a);
    let mut a = coldef("s_abs", "str", "short_lowcard", 0.0);
    a.absent_mod = 2;
    v.push(a);
    let mut a = coldef("f_abs", "float", "f32_exact", 0.0);
    a.absent_mod = 3;
    v.push(a);
    v
}

#[derive(Clone, Debug)]
pub struct GenTable {
    pub table: LTable,
    pub defs: Vec<ColDef>,
    /// rows per ingestion batch
    pub splits: Vec<usize>,
}

/// Build a logical table of `n` rows cut into `splits` batches. Absent columns are NULL for the rows of the
/// batches that do not supply them. An `id` column (row number) is always present.
pub fn make_table(name: &str, defs: &[ColDef], splits: &[usize], rng: &mut Rng) -> GenTable {
    let n: usize = splits.iter().sum();
    let mut t = LTable::new(name);
    t.len = n;
    t.cols.insert("id".into(), (0..n as i64).map(V::Int).collect());
    for d in defs {
        let mut vals = gen::gen_column(d.kind, d.class, n, rng);
        for v in vals.iter_mut() {
            if d.null_p > 0.0 && rng.chance(d.null_p) {
                *v = V::Null;
            }
        }
        if d.absent_mod > 0 {
            let mut start = 0;
            for (bi, &rows) in splits.iter().enumerate() {
                if bi % d.absent_mod == 0 {
                    for v in vals[start..start + rows].iter_mut() {
                        *v = V::Null;
                    }
                }
                start += rows;
            }
        }
        t.cols.insert(d.name.clone(), vals);
    }
    GenTable { table: t, defs: defs.to_vec(), splits: splits.to_vec() }
}

/// A dense, non-null, small table with the same column names and logical types: the canonical realisation
/// used by the capability probe.
pub fn canonical_table(name: &str, defs: &[ColDef], rng: &mut Rng) -> LTable {
    let n = 16;
    let mut t = LTable::new(name);
    t.len = n;
    t.cols.insert("id".into(), (0..n as i64).map(V::Int).collect());
    for d in defs {
        let vals = match d.kind {
            "int" => (0..n).map(|i| V::Int(rng.range(1, 50) + i as i64)).collect(),
            "float" => (0..n).map(|i| V::Float(rng.range(1, 50) as f64 + 0.5 + i as f64)).collect(),
            _ => (0..n).map(|i| V::Str(format!("s{}", (i * 7 + rng.below(3)) % 11))).collect(),
        };
        t.cols.insert(d.name.clone(), vals);
    }
    t
}

pub fn batch_of(table: &LTable, start: usize, end: usize, drop_all_null: bool) -> Batch {
    let mut cols = Vec::new();
    for (name, vals) in &table.cols {
        let slice = &vals[start..end];
        let r = ColRepr::from_logical(slice);
        if matches!(r, ColRepr::Empty) && drop_all_null {
            continue;
        }
        cols.push((name.clone(), r));
    }
    Batch { table: table.name.clone(), rows: end - start, cols }
}

#[derive(Clone, Debug)]
pub struct Realisation {
    pub name: String,
    pub cfg: DbCfg,
    /// rows per ingestion request
    pub splits: Vec<usize>,
    /// flush after batch i?
    pub flush_after: Vec<bool>,
    pub evict: bool,
    pub restart: bool,
}

impl Realisation {
    pub fn to_json(&self) -> J {
        json!({"name": self.name, "cfg": self.cfg.to_json(), "splits": self.splits, "flush_after": self.flush_after,
               "evict": self.evict, "restart": self.restart})
    }
    /// one partition per batch, nothing compacted, in memory
    pub fn partitions(splits: &[usize], threads: usize) -> Realisation {
        Realisation {
            name: format!("mem-{}parts", splits.len()),
            cfg: DbCfg { partition_combine_factor: 999, threads, ..DbCfg::default() },
            splits: splits.to_vec(),
            flush_after: vec![true; splits.len()],
            evict: false,
            restart: false,
        }
    }
    pub fn single_buffer(n: usize) -> Realisation {
        Realisation {
            name: "baseline".into(),
            cfg: DbCfg { threads: 1, ..DbCfg::default() },
            splits: vec![n],
            flush_after: vec![false],
            evict: false,
            restart: false,
        }
    }
}

pub fn realise(table: &LTable, r: &Realisation, op: &OpCell) -> Db {
    let mut db = Db::open(&r.cfg, op);
    let mut start = 0;
    for (i, &rows) in r.splits.iter().enumerate() {
        if rows == 0 {
            continue;
        }
        let b = batch_of(table, start, start + rows, true);
        db.ingest(&[b], Via::Wire);
        start += rows;
        if r.flush_after.get(i).copied().unwrap_or(false) {
            db.flush();
        }
    }
    assert_eq!(start, table.len, "realisation splits must cover the table");
    if r.restart && r.cfg.disk {
        db.restart(false);
    }
    if r.evict && r.cfg.disk {
        db.evict();
    }
    db
}

pub fn type_tag(t: LType) -> &'static str {
    match t {
        LType::Null => "null",
        LType::Int => "int",
        LType::Float => "float",
        LType::Str => "str",
    }
}

/// Random cut of n rows into k non-empty batches.
pub fn random_splits(n: usize, k: usize, rng: &mut Rng) -> Vec<usize> {
    let k = k.min(n).max(1);
    let mut cuts: Vec<usize> = Vec::new();
    while cuts.len() < k - 1 {
        let c = 1 + rng.below(n - 1);
        if !cuts.contains(&c) {
            cuts.push(c);
        }
    }
    cuts.sort();
    let mut out = Vec::new();
    let mut prev = 0;
    for c in cuts {
        out.push(c - prev);
        prev = c;
    }
    out.push(n - prev);
    out
}
