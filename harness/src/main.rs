#![allow(dead_code)]
mod ctx;
mod drive;
mod gen;
mod guard;
mod hist;
mod model;
mod props;
mod qcheck;
mod sql;
mod tables;
mod report;
mod rng;

use std::path::PathBuf;
use std::time::{Duration, Instant};

use ctx::{Ctx, Tier};

fn arg(args: &[String], name: &str) -> Option<String> {
    args.iter().position(|a| a == name).and_then(|i| args.get(i + 1).cloned())
}

fn main() {
    let args: Vec<String> = std::env::args().collect();
    if args.len() < 2 {
        eprintln!("usage: lverif <property|child-...> [--tier quick|thorough] [--seed N] [--shard i/n] [--out dir] [--skip N] [--case id] [--budget secs]");
        std::process::exit(64);
    }
    let prop = args[1].clone();
    if prop == "sanitizer-selftest" {
        // a deliberate heap read one element past the end: an AddressSanitizer build must end the process here with a
        // report; any other build prints the marker line. The driver runs this before it trusts the sanitizer lane.
        let v: Vec<u64> = (0..std::hint::black_box(16u64)).collect();
        let p = v.as_ptr();
        let x = unsafe { std::ptr::read_volatile(p.add(std::hint::black_box(16usize))) };
        println!("selftest-survived {}", x & 1);
        std::process::exit(0);
    }
    if prop == "sanitizer-selftest-race" {
        // two threads write one plain word with no synchronisation: a ThreadSanitizer build must report a data race
        static mut WORD: u64 = 0;
        let hs: Vec<_> = (0..2u64)
            .map(|k| {
                std::thread::spawn(move || {
                    for i in 0..1000u64 {
                        unsafe { std::ptr::write_volatile(std::ptr::addr_of_mut!(WORD), i + k) };
                    }
                })
            })
            .collect();
        for h in hs {
            let _ = h.join();
        }
        println!("race-selftest-done {}", unsafe { std::ptr::read_volatile(std::ptr::addr_of!(WORD)) });
        std::process::exit(0);
    }
    if prop.starts_with("child-") {
        std::process::exit(props::child_main(&prop, &args[2..]));
    }
    let tier = match arg(&args, "--tier").as_deref() {
        Some("thorough") => Tier::Thorough,
        _ => Tier::Quick,
    };
    let seed: u64 = arg(&args, "--seed").and_then(|s| s.parse().ok()).unwrap_or(1);
    let (shard, nshards) = arg(&args, "--shard")
        .map(|s| {
            let mut it = s.split('/');
            (it.next().unwrap().parse().unwrap(), it.next().unwrap().parse().unwrap())
        })
        .unwrap_or((0usize, 1usize));
    let out = PathBuf::from(arg(&args, "--out").unwrap_or_else(|| "/verif/harness/target/out".into()));
    std::fs::create_dir_all(&out).expect("create out dir");
    let skip_until: u64 = arg(&args, "--skip").and_then(|s| s.parse().ok()).unwrap_or(0);
    let part: usize = arg(&args, "--part").and_then(|s| s.parse().ok()).unwrap_or(0);
    let budget = arg(&args, "--budget").and_then(|s| s.parse().ok()).unwrap_or(if tier == Tier::Quick { 120u64 } else { 1200 });
    let verbose = args.iter().any(|a| a == "--verbose");
    // the interpreter lane passes its parameters on the command line
    if args.iter().any(|a| a == "--checkpoint") {
        std::env::set_var("LVERIF_CHECKPOINT", "1");
    }
    if let Some(dir) = arg(&args, "--scratch") {
        std::env::set_var("LVERIF_SCRATCH", dir);
    }
    guard::install_panic_hook(verbose);
    let mut ctx = Ctx {
        prop: prop.clone(),
        tier,
        seed,
        shard,
        nshards,
        out,
        part,
        skip_until,
        only_case: arg(&args, "--case"),
        report: Default::default(),
        next_case: 0,
        started: Instant::now(),
        budget: Duration::from_secs(budget),
        watchdog: Duration::from_secs(180),
    };
    if !props::run(&mut ctx) {
        eprintln!("unknown property {}", prop);
        std::process::exit(64);
    }
    ctx.write_report(None);
    // lingering database threads must not keep the process alive
    std::process::exit(0);
}
