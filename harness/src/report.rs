//! Per-shard report: what the monitors observed. Written as JSON for the python driver to merge.
use std::collections::{BTreeMap, BTreeSet};

use serde_json::{json, Value as J};

#[derive(Clone, Debug)]
pub struct Failure {
    pub oracle: String,
    pub mode: String,
    pub features: String,
    pub detail: String,
    pub case: J,
}

impl Failure {
    pub fn new(oracle: &str, mode: &str, features: &str, detail: String, case: J) -> Failure {
        Failure {
            oracle: oracle.to_string(),
            mode: mode.to_string(),
            features: features.to_string(),
            detail,
            case,
        }
    }
    pub fn signature(&self) -> String {
        format!("{}|{}|{}", self.oracle, self.mode, self.features)
    }
    pub fn to_json(&self) -> J {
        json!({
            "signature": self.signature(),
            "oracle": self.oracle, "mode": self.mode, "features": self.features,
            "detail": self.detail, "case": self.case,
        })
    }
}

#[derive(Default, Debug)]
pub struct Report {
    pub cases: u64,
    pub evaluations: u64,
    pub distinct: BTreeSet<String>,
    pub counters: BTreeMap<String, u64>,
    pub sets: BTreeMap<String, BTreeSet<String>>,
    pub samples: Vec<J>,
    /// first failure per signature + how often it was seen
    pub failures: BTreeMap<String, (Failure, u64)>,
    pub inconclusive: Vec<String>,
    pub notes: Vec<String>,
}

pub const MAX_SAMPLES: usize = 6;
pub const MAX_SET: usize = 4000;

impl Report {
    pub fn merge(&mut self, o: CaseOut) {
        self.cases += 1;
        self.evaluations += o.evaluations;
        for d in o.distinct {
            if self.distinct.len() < 200_000 {
                self.distinct.insert(d);
            }
        }
        for (k, v) in o.counters {
            *self.counters.entry(k).or_insert(0) += v;
        }
        for (k, v) in o.sets {
            let s = self.sets.entry(k).or_default();
            for x in v {
                if s.len() < MAX_SET {
                    s.insert(x);
                }
            }
        }
        for s in o.samples {
            if self.samples.len() < MAX_SAMPLES {
                self.samples.push(s);
            }
        }
        for f in o.failures {
            let sig = f.signature();
            self.failures.entry(sig).and_modify(|e| e.1 += 1).or_insert((f, 1));
        }
        self.inconclusive.extend(o.inconclusive);
        self.notes.extend(o.notes);
    }

    pub fn to_json(&self) -> J {
        json!({
            "cases": self.cases,
            "evaluations": self.evaluations,
            "distinct": self.distinct.iter().collect::<Vec<_>>(),
            "counters": self.counters,
            "sets": self.sets.iter().map(|(k, v)| (k.clone(), json!(v.iter().collect::<Vec<_>>()))).collect::<serde_json::Map<String, J>>(),
            "samples": self.samples,
            "failures": self.failures.values().map(|(f, n)| { let mut j = f.to_json(); j["count"] = json!(n); j }).collect::<Vec<_>>(),
            "inconclusive": self.inconclusive,
            "notes": self.notes.iter().take(50).collect::<Vec<_>>(),
        })
    }
}

/// What one case produced (collected in the case thread, merged by the shard main thread).
#[derive(Default, Debug)]
pub struct CaseOut {
    pub evaluations: u64,
    pub distinct: Vec<String>,
    pub counters: BTreeMap<String, u64>,
    pub sets: BTreeMap<String, BTreeSet<String>>,
    pub samples: Vec<J>,
    pub failures: Vec<Failure>,
    pub inconclusive: Vec<String>,
    pub notes: Vec<String>,
}

impl CaseOut {
    pub fn eval(&mut self, n: u64) {
        self.evaluations += n;
    }
    pub fn distinct(&mut self, key: String) {
        self.distinct.push(key);
    }
    pub fn count(&mut self, name: &str, n: u64) {
        *self.counters.entry(name.to_string()).or_insert(0) += n;
    }
    pub fn set(&mut self, name: &str, value: String) {
        self.sets.entry(name.to_string()).or_default().insert(value);
    }
    pub fn sample(&mut self, j: J) {
        if self.samples.len() < 2 {
            self.samples.push(j);
        }
    }
    pub fn fail(&mut self, f: Failure) {
        if self.failures.len() < 20 {
            self.failures.push(f);
        }
    }
    pub fn note(&mut self, s: String) {
        if self.notes.len() < 5 {
            self.notes.push(s);
        }
    }
}
