//! Logical data model: values, tables, batches. This is the executable specification side; it shares
//! no code with the engine.
use std::cmp::Ordering;
use std::collections::BTreeMap;
use std::hash::{Hash, Hasher};

use serde_json::{json, Value as J};

/// The engine's in-band NULL markers; outside the value domain (T-SENTINEL).
pub const I64_NULL: i64 = i64::MAX;
pub const F64_NULL_BITS: u64 = 0x7ffa_aaaa_aaaa_aaaa;

#[derive(Clone, Debug)]
pub enum V {
    Null,
    Int(i64),
    Float(f64),
    Str(String),
}

impl PartialEq for V {
    fn eq(&self, o: &V) -> bool {
        match (self, o) {
            (V::Null, V::Null) => true,
            (V::Int(a), V::Int(b)) => a == b,
            (V::Float(a), V::Float(b)) => a.to_bits() == b.to_bits(),
            (V::Str(a), V::Str(b)) => a == b,
            _ => false,
        }
    }
}
impl Eq for V {}

impl Hash for V {
    fn hash<H: Hasher>(&self, h: &mut H) {
        match self {
            V::Null => 0u8.hash(h),
            V::Int(i) => {
                1u8.hash(h);
                i.hash(h)
            }
            V::Float(f) => {
                2u8.hash(h);
                f.to_bits().hash(h)
            }
            V::Str(s) => {
                3u8.hash(h);
                s.hash(h)
            }
        }
    }
}

impl V {
    fn rank(&self) -> u8 {
        match self {
            V::Null => 0,
            V::Int(_) => 1,
            V::Float(_) => 2,
            V::Str(_) => 3,
        }
    }
    /// Canonical total order, used only to sort multisets before comparing them.
    pub fn canon_cmp(&self, o: &V) -> Ordering {
        match (self, o) {
            (V::Int(a), V::Int(b)) => a.cmp(b),
            (V::Float(a), V::Float(b)) => a.total_cmp(b),
            (V::Str(a), V::Str(b)) => a.cmp(b),
            _ => self.rank().cmp(&o.rank()),
        }
    }
    pub fn is_null(&self) -> bool {
        matches!(self, V::Null)
    }
    pub fn to_json(&self) -> J {
        match self {
            V::Null => J::Null,
            V::Int(i) => json!({ "i": i }),
            V::Float(f) => json!({"f": format!("{:#018x}", f.to_bits()), "v": format!("{:e}", f)}),
            V::Str(s) => json!({ "s": s }),
        }
    }
    pub fn from_json(j: &J) -> V {
        if j.is_null() {
            return V::Null;
        }
        if let Some(i) = j.get("i") {
            return V::Int(i.as_i64().unwrap());
        }
        if let Some(f) = j.get("f") {
            let s = f.as_str().unwrap().trim_start_matches("0x");
            return V::Float(f64::from_bits(u64::from_str_radix(s, 16).unwrap()));
        }
        V::Str(j.get("s").unwrap().as_str().unwrap().to_string())
    }
    pub fn short(&self) -> String {
        match self {
            V::Null => "NULL".into(),
            V::Int(i) => format!("{}", i),
            V::Float(f) => format!("{:?}f", f),
            V::Str(s) => {
                if s.len() > 24 {
                    format!("'{}..'({}B)", s.chars().take(12).collect::<String>(), s.len())
                } else {
                    format!("'{}'", s)
                }
            }
        }
    }
}

pub fn canon_cmp_rows(a: &[V], b: &[V]) -> Ordering {
    for (x, y) in a.iter().zip(b.iter()) {
        let c = x.canon_cmp(y);
        if c != Ordering::Equal {
            return c;
        }
    }
    a.len().cmp(&b.len())
}

/// Logical type of a column = join of the types of its non-null cells.
#[derive(Clone, Copy, Debug, PartialEq, Eq, Hash, PartialOrd, Ord)]
pub enum LType {
    Null,
    Int,
    Float,
    Str,
}

pub fn join_type(vals: &[V]) -> LType {
    let mut t = LType::Null;
    for v in vals {
        let vt = match v {
            V::Null => continue,
            V::Int(_) => LType::Int,
            V::Float(_) => LType::Float,
            V::Str(_) => LType::Str,
        };
        if vt > t {
            t = vt;
        }
    }
    t
}

/// How a column of one ingestion batch is physically handed to the database.
#[derive(Clone, Debug)]
pub enum ColRepr {
    Dense(Vec<f64>),
    Sparse(Vec<(u64, f64)>),
    I64(Vec<i64>),
    SparseI64(Vec<(u64, i64)>),
    Str(Vec<String>),
    Mixed(Vec<V>),
    Empty,
}

impl ColRepr {
    pub fn kind(&self) -> &'static str {
        match self {
            ColRepr::Dense(_) => "dense",
            ColRepr::Sparse(_) => "sparse",
            ColRepr::I64(_) => "i64",
            ColRepr::SparseI64(_) => "sparse_i64",
            ColRepr::Str(_) => "string",
            ColRepr::Mixed(_) => "mixed",
            ColRepr::Empty => "empty",
        }
    }

    /// Logical cells (length `rows`) this representation stands for. Dense representations shorter
    /// than `rows` are padded with NULL (documented wire behaviour for f64/i64).
    pub fn logical(&self, rows: usize) -> Vec<V> {
        let mut out = vec![V::Null; rows];
        match self {
            ColRepr::Dense(xs) => {
                for (i, x) in xs.iter().enumerate() {
                    out[i] = V::Float(*x);
                }
            }
            ColRepr::Sparse(xs) => {
                for (i, x) in xs {
                    out[*i as usize] = V::Float(*x);
                }
            }
            ColRepr::I64(xs) => {
                for (i, x) in xs.iter().enumerate() {
                    out[i] = V::Int(*x);
                }
            }
            ColRepr::SparseI64(xs) => {
                for (i, x) in xs {
                    out[*i as usize] = V::Int(*x);
                }
            }
            ColRepr::Str(xs) => {
                for (i, x) in xs.iter().enumerate() {
                    out[i] = V::Str(x.clone());
                }
            }
            ColRepr::Mixed(xs) => {
                for (i, x) in xs.iter().enumerate() {
                    out[i] = x.clone();
                }
            }
            ColRepr::Empty => {}
        }
        out
    }

    /// Choose the most specific representation able to carry `vals` (used by generators that think
    /// in logical cells). `prefer_sparse` picks the sparse variant when there are NULLs.
    pub fn from_logical(vals: &[V]) -> ColRepr {
        let t = join_type(vals);
        let has_null = vals.iter().any(|v| v.is_null());
        let mixed = vals.iter().any(|v| match (v, t) {
            (V::Null, _) => false,
            (V::Int(_), LType::Int) | (V::Float(_), LType::Float) | (V::Str(_), LType::Str) => false,
            _ => true,
        });
        match (t, has_null, mixed) {
            (LType::Null, _, _) => ColRepr::Empty,
            (LType::Int, false, false) => ColRepr::I64(
                vals.iter()
                    .map(|v| if let V::Int(i) = v { *i } else { unreachable!() })
                    .collect(),
            ),
            (LType::Int, true, false) => ColRepr::SparseI64(
                vals.iter()
                    .enumerate()
                    .filter_map(|(i, v)| if let V::Int(x) = v { Some((i as u64, *x)) } else { None })
                    .collect(),
            ),
            (LType::Float, false, false) => ColRepr::Dense(
                vals.iter()
                    .map(|v| if let V::Float(f) = v { *f } else { unreachable!() })
                    .collect(),
            ),
            (LType::Float, true, false) => ColRepr::Sparse(
                vals.iter()
                    .enumerate()
                    .filter_map(|(i, v)| if let V::Float(x) = v { Some((i as u64, *x)) } else { None })
                    .collect(),
            ),
            (LType::Str, false, false) => ColRepr::Str(
                vals.iter()
                    .map(|v| if let V::Str(s) = v { s.clone() } else { unreachable!() })
                    .collect(),
            ),
            _ => ColRepr::Mixed(vals.to_vec()),
        }
    }

    pub fn to_json(&self) -> J {
        match self {
            ColRepr::Dense(xs) => json!({"dense": xs.iter().map(|x| V::Float(*x).to_json()).collect::<Vec<_>>()}),
            ColRepr::Sparse(xs) => json!({"sparse": xs.iter().map(|(i,x)| json!([i, V::Float(*x).to_json()])).collect::<Vec<_>>()}),
            ColRepr::I64(xs) => json!({ "i64": xs }),
            ColRepr::SparseI64(xs) => json!({ "sparse_i64": xs }),
            ColRepr::Str(xs) => json!({ "string": xs }),
            ColRepr::Mixed(xs) => json!({"mixed": xs.iter().map(|x| x.to_json()).collect::<Vec<_>>()}),
            ColRepr::Empty => json!("empty"),
        }
    }
}

#[derive(Clone, Debug)]
pub struct Batch {
    pub table: String,
    pub rows: usize,
    pub cols: Vec<(String, ColRepr)>,
}

impl Batch {
    pub fn to_json(&self, max_rows: usize) -> J {
        if self.rows > max_rows {
            return json!({"table": self.table, "rows": self.rows,
                "cols": self.cols.iter().map(|(n, r)| json!({"name": n, "repr": r.kind()})).collect::<Vec<_>>()});
        }
        json!({"table": self.table, "rows": self.rows,
            "cols": self.cols.iter().map(|(n, r)| json!({"name": n, "data": r.to_json()})).collect::<Vec<_>>()})
    }
}

/// A logical table: named columns of equal length; a column that a batch did not mention is NULL for
/// that batch's rows.
#[derive(Clone, Debug, Default)]
pub struct LTable {
    pub name: String,
    pub len: usize,
    pub cols: BTreeMap<String, Vec<V>>,
}

impl LTable {
    pub fn new(name: &str) -> LTable {
        LTable { name: name.to_string(), len: 0, cols: BTreeMap::new() }
    }

    pub fn append(&mut self, batch: &Batch) {
        for (name, repr) in &batch.cols {
            let vals = repr.logical(batch.rows);
            let col = self.cols.entry(name.clone()).or_insert_with(|| vec![V::Null; self.len]);
            col.extend(vals);
        }
        self.len += batch.rows;
        for col in self.cols.values_mut() {
            if col.len() < self.len {
                col.resize(self.len, V::Null);
            }
        }
    }

    pub fn col_type(&self, name: &str) -> LType {
        self.cols.get(name).map(|c| join_type(c)).unwrap_or(LType::Null)
    }

    pub fn cell(&self, col: &str, row: usize) -> V {
        self.cols.get(col).map(|c| c[row].clone()).unwrap_or(V::Null)
    }
}

/// T-COERCE: does a returned cell match the supplied cell, given the set of types that met in the column?
/// `col_type` is the logical type of the whole column.
pub fn cell_matches(supplied: &V, got: &V, col_type: LType) -> bool {
    if supplied == got {
        return true;
    }
    match (supplied, got, col_type) {
        // int widened to float
        (V::Int(i), V::Float(f), LType::Float) => (*i as f64).to_bits() == f.to_bits(),
        // number rendered as string
        (V::Int(i), V::Str(s), LType::Str) => &i.to_string() == s,
        (V::Float(f), V::Str(s), LType::Str) => {
            &f.to_string() == s || &format!("{:?}", f) == s || &format!("{:e}", f) == s
        }
        // int that first became float, then string
        _ => false,
    }
}
