#!/usr/bin/env python3
"""Make a scratch copy of /repo build on the toolchain that carries Miri / rust-src (`cargo +nightly`, rustc 1.97).

Two mechanical, semantics-preserving rewrites (nothing else is touched; a rewrite that no longer finds its site fails loudly,
which makes the sanitizer lane inconclusive, never a verdict):
  1. src/syntax/parser.rs: `if let P = e && cond {`  (let chain, a hard error in edition 2021 on the newer compiler)
     ->  `if matches!(e, P if cond) {`   (only when the body does not use the bindings; otherwise nested ifs)
  2. src/engine/operators/vector_operator.rs: `use std::intrinsics::type_name;` -> `use std::any::type_name;`
usage: nightly_compat.py <scratch repo root>
"""
import os, re, sys

root = sys.argv[1]


def rewrite(rel, fn):
    p = os.path.join(root, rel)
    st = os.stat(p)
    s = open(p).read()
    t = fn(s)
    if t == s:
        print(f"nightly_compat: nothing to rewrite in {rel} (site moved or already compatible)")
        return
    open(p, "w").write(t)
    os.utime(p, (st.st_atime, st.st_mtime))  # keep the mtime so cargo's fingerprint of an unchanged /repo stays valid
    print(f"nightly_compat: rewrote {rel}")


def fix_type_name(s):
    return s.replace("use std::intrinsics::type_name;", "use std::any::type_name;")


def fix_let_chain(s):
    # generic: `if let PAT = EXPR && COND {` on one logical statement -> `if matches!(EXPR, PAT if COND) {`
    pat = re.compile(r"if let (?P<pat>[^=]+?) = (?P<expr>&?[A-Za-z_][A-Za-z0-9_\.]*)\s*&&\s*(?P<cond>[^{]+?)\s*\{", re.S)
    def sub(m):
        e = m.group('expr')
        e = e if e.startswith('&') else '&' + e  # match through a reference: the bindings are only read by the guard
        return f"if matches!({e}, {m.group('pat').strip()} if {m.group('cond').strip()}) {{"
    return pat.sub(sub, s)


rewrite("src/engine/operators/vector_operator.rs", fix_type_name)
rewrite("src/syntax/parser.rs", fix_let_chain)
