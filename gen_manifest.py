#!/usr/bin/env python3
"""Regenerates MANIFEST.json from checks_meta.py (claimed checks) + the fixed property list."""
import json, os, subprocess
VERIF = os.path.dirname(os.path.abspath(__file__))
import sys
sys.path.insert(0, VERIF)
from checks_meta import META, MANIFEST_TEXT

props = [json.loads(l) for l in open(os.path.join(VERIF, "properties.jsonl"))]
hook_commits = subprocess.run(["git", "-C", "/repo", "log", "--format=%H %s"], capture_output=True, text=True).stdout.splitlines()
hook_commits = [l.split()[0] for l in hook_commits if l.split(" ", 1)[1].startswith("verif:")]
checks, na = [], []
for p in props:
    pid = p["id"]
    if pid in META and not META[pid].get("disabled"):
        m = META[pid]
        t = MANIFEST_TEXT[pid]
        checks.append({
            "property_id": pid,
            "quick_cmd": f"./check {pid} --tier quick",
            "thorough_cmd": f"./check {pid} --tier thorough",
            "evidence_file": f"/verif/evidence/{pid}.json",
            "replay_cmd_template": f"./check {pid} --replay {{path}}",
            "engine": "lverif",
            "level_claimed": {"category": m["level"], "text": t["level_text"], "design_ref": t["design_ref"]},
            "level_note": t["level_note"],
            "technique": t["technique"],
        })
    else:
        na.append({"property_id": pid, "reason": MANIFEST_TEXT.get(pid, {}).get("na_reason", "check not built yet in this session (runtime monitoring applies; see DESIGN.md section 3)")})
manifest = {
    "version": 1,
    "setup_cmd": "cd /verif/harness && CARGO_NET_OFFLINE=true cargo build --offline",
    "hooks": {
        "guard": "cargo feature `verif` of the locustdb crate (off by default)",
        "enable": "the harness crate depends on locustdb with features=[\"verif\"] (path = /repo); ./check rebuilds it from /repo's working tree",
        "baseline_off_cmd": "cd /repo && cargo nextest run --workspace --no-fail-fast --test-threads 8 --offline || cargo test --workspace --no-fail-fast --offline",
        "source_commits": hook_commits,
        "add_only": True,
    },
    "engines": [{"name": "lverif", "path": "/verif/harness", "serves_properties": [c["property_id"] for c in checks],
                 "kind_free_text": "Rust harness linking the real locustdb crate (feature verif): seeded workload generators, reference model, panic/hang/fs/sync monitors, offline history checkers; driven by /verif/check (python)"}],
    "checks": checks,
    "not_applicable": na,
    "notes": "Verdicts are three-valued (held=0 / violated=1 / inconclusive=2). Known findings: /verif/known_findings.jsonl.",
}
json.dump(manifest, open(os.path.join(VERIF, "MANIFEST.json"), "w"), indent=1)
print("checks:", [c["property_id"] for c in checks], "not_applicable:", len(na))
